"""C10 -- dosing regimens deliver the specified amounts at the specified times (module Dosing)."""
import json

from . import tlc
from .cache import cached
from .common import MachineryError
from .verdict import Verdict, pmap

PROP = 'C10'
ASSUME = [
    'RefSim stands in for myokit.Simulation; its pace input is driven by myokit\'s own PacingSystem on the protocol chi '
    'attached, so "what the system receives" is observed on the real protocol objects',
    'integer time grid (doses {1,2}, starts 0..2(3), durations 1..2(3), periods None/1..3(4), counts None/1..3(4), final '
    'times None/0..7); accumulator model without elimination, dosed directly or through the depot, observed at every '
    'half time unit; tolerance 1e-7',
    'for an indefinite regimen and no final time the table lists the first dose only (a finite table cannot do more)',
    'dataset-derived regimens: the shared run of module Controller (see C14) is judged here on the clauses Regimen (dose rows -> '
    'protocols) and AppliedRegimen (the protocol the solver ran with for every individual of a posterior built by the controller)',
]


def _compute(tier, seed):
    r = tlc.run('MC_Dosing', 'Dosing_%s.cfg' % tier)
    try:
        tlc.run('MC_Dosing', 'Dosing_asfound.cfg', want_records=False)
        raise MachineryError('negative control failed: as-found dose count not refuted')
    except tlc.SpecViolation as e:
        if e.res.violated != 'TableIsApplied':
            raise MachineryError('as-found variant refuted on %s' % e.res.violated)
    from . import replay_dosing
    results = pmap(replay_dosing.replay_case, [(rec, seed) for rec in r.records])
    return dict(run=r.summary(), records=r.records, results=results)


def run(tier, seed):
    v = Verdict(PROP, tier, seed)
    out = cached('dosing', tier, seed, lambda: _compute(tier, seed))
    for fails, cnt in out['results']:
        v.failures(fails)
        v.merge_counters(cnt)
    # regimens derived from a dataset: the shared Controller run, judged on its dosing clauses
    from . import check_c14
    ctl = cached('controller', tier, seed, lambda: check_c14._compute(tier, seed))
    for fails, cnt in ctl['results']:
        v.failures([f for f in fails if f['clause'] in ('Regimen', 'AppliedRegimen')])
        v.count('controller_cases', cnt.get('cases', 0))
        v.count('controller_cases_with_dose_rows', cnt.get('feat_has_dose_rows', 0))
    recs = out['records']
    for rec in recs[:1] + recs[len(recs) // 2:len(recs) // 2 + 1] + recs[-1:]:
        v.sample(rec)
    nt = sum(1 for r in recs if r['evperiod'] > 0)
    if v.counters.get('feat_indefinite_finite_final', 0) == 0 or v.counters.get('feat_dose_at_final_time', 0) == 0:
        v.vacuous('vacuous run: boundary strata empty')
    cov = dict(states=out['run']['states'] + sum(r['states'] for r in ctl['runs']),
               transitions=out['run']['transitions'] + sum(r['transitions'] for r in ctl['runs']),
               traces_validated_against_impl=len(recs) + v.counters.get('controller_cases', 0), evaluations=v.counters.get('evaluations', 0),
               distinct_nontrivial=nt, exhaustive=True,
               rule='TLC enumerates dose x start x duration x period x count x final time; each case is run with the '
                    'keyword regimen and with an explicit protocol, table through PredictiveModel and '
                    'PopulationPredictiveModel, delivery on a directly or indirectly dosed accumulator; non-trivial = '
                    'periodic regimen',
               tlc_runs=[out['run']] + ctl['runs'],
               spec_negative_control='Dosing_asfound.cfg (final // period) refuted by TLC on TableIsApplied')
    return v.finish('model_checking', cov, ASSUME)


def replay(path):
    from . import replay_dosing
    rep = json.load(open(path))
    if 'mode' in rep['case']:
        from . import replay_controller
        fails, _ = replay_controller.replay_case((rep['case']['config'], rep['case']['mode'], rep['seed']))
        fails = [f for f in fails if f['clause'] in ('Regimen', 'AppliedRegimen')]
    else:
        fails, _ = replay_dosing.replay_case((rep['case']['config'], rep['seed']))
    for f in fails:
        print('VIOLATION property=%s replay=%s' % (PROP, path))
        print('  clause=%s manifestation=%s detail=%s' % (f['clause'], f['manifestation'], str(f['detail'])[:400]))
        return 1
    print('replay passes')
    return 0
