"""spec -> code for module Controller (C14): every dataset TLC enumerates is turned into a pandas
data frame (ids as ints or strings, an extra column, rows of unmapped observables, missing values
and times) and given to chi.ProblemModellingController over a dosed PKPD model on RefSim; the
posterior it returns is compared -- names, IDs, regimens, value and gradient at a seeded vector --
with the posterior assembled BY HAND from the specification's routing record."""
import os
import warnings

import numpy as np
import pandas as pd

from . import refsim, interp
from .common import scribble, digest

refsim.install()
from . import probes  # noqa: E402

chi = probes.chi
import myokit  # noqa: E402
import pints  # noqa: E402

LIB = os.path.join(os.path.dirname(os.path.abspath(chi.__file__)), 'library', 'model_library')
OBS = {'md': 'Obs A', 'm1': 'Obs A', 'm2': 'Obs B', 'mx': 'Obs X', 'mv': 'Obs A', 'c': 'Weight'}
OUTPUTS = ['central.drug_amount', 'central.drug_concentration']


def make_frame(data, id_as_string, rng, replic=False):
    rows = []
    for k, r in enumerate(data):
        idv = ('id%d' % r['id']) if id_as_string else r['id']
        t = np.nan if r['t'] == 0 else 0.5 * r['t']
        row = {'ID': idv, 'Time': t, 'Observable': np.nan, 'Value': np.nan, 'Dose': np.nan, 'Duration': np.nan,
               'Comment': 'row %d' % k}
        if r['kind'] in ('m1', 'm2', 'mx', 'md'):
            row['Observable'] = OBS[r['kind']]
            row['Value'] = meas_value(k, r, replic)
            if replic:
                row['Comment'] = 'replicate'
        elif r['kind'] == 'mv':
            row['Observable'] = OBS['mv']
        elif r['kind'] == 'c':
            row['Observable'] = OBS['c']
            row['Value'] = cov_value(r['v'])
        if r['kind'] in ('d', 'db', 'md'):      # "md": the measurement row carries a dose as well
            row['Dose'] = 2.0 * r['v']
            if r['kind'] != 'db':
                row['Duration'] = 0.25 * r['v']
        rows.append(row)
    return pd.DataFrame(rows, columns=['Comment', 'ID', 'Time', 'Observable', 'Value', 'Dose', 'Duration'])


def meas_value(k, r, replic=False):
    # replic: the reading depends on the abstract value only -- replicate samples (same individual, observable, time and
    # reading) are then IDENTICAL rows, and a dataset is a sequence of rows, not a set (Controller!Meas counts each)
    return round(1.0 + 0.3 * r['v'] + (0.0 if replic else 0.01 * k), 3)


def cov_value(v):
    return 0.2 * v


def base_model():
    m = chi.PKPDModel(os.path.join(LIB, 'pk_one_comp.xml'))
    m.set_administration('central', direct=True)
    m.set_outputs(OUTPUTS)
    return m


def age_value(i):
    return round(0.15 * i + 0.05, 3)


def population_model(mode, cov_name='W'):
    if mode == 'pop':
        return chi.ComposedPopulationModel([chi.LogNormalModel(), chi.PooledModel(), chi.GaussianModel(centered=False),
                                            chi.PooledModel(n_dim=3)])
    return chi.ComposedPopulationModel([
        chi.CovariatePopulationModel(chi.LogNormalModel(), chi.LinearCovariateModel(n_cov=1, cov_names=[cov_name])),
        chi.PooledModel(n_dim=2), chi.HeterogeneousModel(), chi.PooledModel(n_dim=2)])


def replay_case(arg):
    rec, mode, seed = arg
    fails, cnt = [], {'cases': 1}
    key = digest([rec, mode])
    rng = np.random.default_rng([seed, int(key, 16) % (2 ** 31)])
    data, post = rec['data'], rec['posterior']
    kinds = [r['kind'] for r in data[:-(2 * len(post['ids']) + 1)]]
    feats = ['mode_' + mode]
    if any(k in ('d', 'db', 'md') for k in kinds):
        feats.append('has_dose_rows')
    if 'md' in kinds:
        feats.append('dose_on_a_measurement_row')
    if any(k in ('mx', 'mv') for k in kinds) or any(r['t'] == 0 and r['kind'] != 'c' for r in data):
        feats.append('has_irrelevant_rows')
    if post['ids'] != sorted(post['ids']):
        feats.append('ids_not_sorted')
    if any(len(m[0]) == 0 and len(m[1]) > 0 for m in post['meas']):
        feats.append('first_output_unobserved_for_an_individual')
    if any(len(m[0]) == 0 and len(m[1]) == 0 for m in post['meas']):
        feats.append('individual_without_measurements')
    for f in feats:
        cnt['feat_' + f] = 1

    def fail(clause, manifestation, detail):
        fails.append(dict(case=dict(config=rec, mode=mode), clause=clause, manifestation=manifestation, detail=detail,
                          features=feats))
    if not rec['valid']:
        cnt['outside_preconditions'] = 1
        return fails, cnt
    id_as_string = bool(rng.integers(2))
    replic = (int(key, 16) // 13) % 2 == 1
    if replic:
        cnt['replicate_readings_identical_rows'] = 1
    frame = make_frame(data, id_as_string, rng, replic)
    if mode == 'popcov':
        # a second covariate ("Age", one value per individual), mapped up front: the population model is swapped later for
        # one that reads it (controller life cycle: a posterior built after the swap uses the NEW model's covariates)
        extra = pd.DataFrame([{'Comment': 'age', 'ID': (('id%d' % i) if id_as_string else i), 'Time': np.nan, 'Observable': 'Age',
                               'Value': age_value(i), 'Dose': np.nan, 'Duration': np.nan} for i in post['ids']])
        frame = pd.concat([frame, extra], ignore_index=True)
    # the index of the frame carries no information (Controller: a dataset is a SEQUENCE of rows): default range index,
    # permuted labels (a frame that was sorted or shuffled), labels with gaps (a filtered frame), string labels
    ikind = (int(key, 16) // 11) % 4
    if ikind == 1:
        frame.index = rng.permutation(len(frame))
    elif ikind == 2:
        frame.index = 3 * np.arange(len(frame)) + 7
    elif ikind == 3:
        frame.index = ['row-%d' % (len(frame) - k) for k in range(len(frame))]
    cnt['index_kind_%d' % ikind] = 1
    frame_in = frame.copy(deep=True)
    ids = [('id%d' % i) if id_as_string else str(i) for i in post['ids']]
    ems = [chi.GaussianErrorModel(), chi.ConstantAndMultiplicativeGaussianErrorModel()]
    idx_of_row = {}
    try:
        with warnings.catch_warnings():
            warnings.simplefilter('ignore', FutureWarning)
            ctrl = chi.ProblemModellingController(base_model(), ems)
            if mode != 'indiv':
                ctrl.set_population_model(population_model(mode))
            # the output-observable mapping is a FUNCTION (Controller!Mapping): the order in which its entries are written is
            # immaterial -- every other case writes it in the reverse of the model's output order
            mapping = {OUTPUTS[0]: 'Obs A', OUTPUTS[1]: 'Obs B'}
            if (int(key, 16) // 5) % 2:
                mapping = dict(reversed(list(mapping.items())))
                cnt['mapping_written_in_reverse_order'] = 1
            # life cycle: every other individual-mode case fixes a mechanistic parameter BEFORE the data arrive (the controller
            # then holds a reduced model when it reads the dose columns) and releases it afterwards -- the net configuration
            # is the same, so is the posterior (Controller: the regimens are a function of the dataset alone)
            fix_first = mode == 'indiv' and (int(key, 16) // 19) % 2 == 1
            if fix_first:
                pname = base_model().parameters()[1]
                ctrl.fix_parameters({pname: 0.77})
                cnt['parameter_fixed_before_set_data'] = 1
            ctrl.set_data(frame, output_observable_dict=mapping,
                          covariate_dict=({'W': 'Weight', 'A': 'Age'} if mode == 'popcov' else None))
            if fix_first:
                ctrl.fix_parameters({pname: None})
            scribble(ctrl, ('get_parameter_names', 'get_covariate_names', 'get_dosing_regimens'))
            n = ctrl.get_n_parameters()
            pri = [pints.GaussianLogPrior(1.0 + 0.05 * k, 1.5) for k in range(n)]
            ctrl.set_log_prior(pints.ComposedLogPrior(*pri))
            # ---- regimens derived from the dataset -------------------------------------------
            regs = ctrl.get_dosing_regimens()
            if regs is None:
                # (documented for a dataset read WITHOUT a dose key; here the dose key was given)
                fail('Regimen', 'no_regimens_extracted', dict(expected=[post['regimen'][k] for k in range(len(ids))]))
                return fails, cnt
            for k, i in enumerate(ids):
                exp = sorted((2.0 * a / (0.25 * d if d else 0.01), 0.5 * t, (0.25 * d if d else 0.01), 0.0, 0)
                             for a, t, d in post['regimen'][k])
                got = list(refsim.protocol_events(regs[i]))
                if got != exp:
                    fail('Regimen', 'dose_events', dict(individual=i, got=got, expected=exp))
            # ---- hand-assembled posterior from the specification's record --------------------------
            def hand_ll(k):
                m = base_model()
                p = myokit.Protocol()
                for a, t, d in post['regimen'][k]:
                    dur = 0.25 * d if d else 0.01
                    p.add(myokit.ProtocolEvent(2.0 * a / dur, 0.5 * t, dur))
                m.set_dosing_regimen(p)
                obs, tms = [], []
                for o in range(2):
                    pairs = post['meas'][k][o]
                    tms.append(np.array([0.5 * t for t, v in pairs]))
                    vals = []
                    for t, v in pairs:
                        # recover the row index of this measurement to reproduce the row-specific value
                        vals.append(None)
                    obs.append(vals)
                return m, obs, tms
            # measurement values: find the rows in order
            def meas_vals(i_int, kind):
                return [meas_value(kk, r, replic) for kk, r in enumerate(data) if r['id'] == i_int and (r['kind'] == kind or (kind == 'm1' and r['kind'] == 'md')) and r['t'] != 0]
            lls = []
            for k, i in enumerate(ids):
                m, _, tms = hand_ll(k)
                obs = [np.array(meas_vals(post['ids'][k], 'm1')), np.array(meas_vals(post['ids'][k], 'm2'))]
                ll = chi.LogLikelihood(m, [chi.GaussianErrorModel(), chi.ConstantAndMultiplicativeGaussianErrorModel()],
                                       obs, tms)
                ll.set_id(i)
                lls.append(ll)
            checks = []
            if mode == 'indiv':
                for k, i in enumerate(ids):
                    got = ctrl.get_log_posterior(individual=i)
                    exp = chi.LogPosterior(lls[k], pints.ComposedLogPrior(*pri))
                    checks.append((i, got, exp))
            else:
                pop = population_model(mode)
                covs = np.array([[cov_value(c)] for c in post['cov']]) if mode == 'popcov' else None
                pop.set_dim_names(lls[0].get_parameter_names())
                hll = chi.HierarchicalLogLikelihood(lls, pop, covs)
                exp = chi.HierarchicalLogPosterior(hll, pints.ComposedLogPrior(*pri))
                checks.append(('all', ctrl.get_log_posterior(), exp))
            x = None
            for label, got, exp in checks:
                nn = exp.n_parameters()
                if got.n_parameters() != nn:
                    fail('Posterior', 'n_parameters', dict(label=label, got=got.n_parameters(), expected=nn))
                    continue
                if mode != 'indiv':
                    if list(got.get_parameter_names(include_ids=True)) != list(exp.get_parameter_names(include_ids=True)):
                        fail('Posterior', 'names', dict(got=got.get_parameter_names(include_ids=True),
                                                        expected=exp.get_parameter_names(include_ids=True)))
                    if list(got.get_id()) != list(exp.get_id()):
                        fail('Posterior', 'ids', dict(got=got.get_id(), expected=exp.get_id()))
                    names = exp.get_parameter_names()
                else:
                    names = got.get_parameter_names()
                    if list(names) != list(exp.get_parameter_names()):
                        fail('Posterior', 'names', dict(got=names, expected=exp.get_parameter_names()))
                # an individual WITHOUT any usable measurement is part of the dataset and of the population (its block of
                # parameters, its ID); chi cannot solve a model for an empty set of times (the score is -inf, with a warning,
                # on both sides of the comparison), so for such datasets the comparison stops at the structure
                who_ = [ids.index(label)] if mode == 'indiv' else list(range(len(ids)))
                if any(len(post['meas'][k_][0]) == 0 and len(post['meas'][k_][1]) == 0 for k_ in who_):
                    cnt['unmeasured_individual_structure_only'] = cnt.get('unmeasured_individual_structure_only', 0) + 1
                    continue
                x = np.round(rng.uniform(0.6, 1.4, size=nn), 3)
                for q, nm in enumerate(names):
                    if 'Log std' in nm or nm.startswith('Std') or 'Sigma' in nm:
                        x[q] = round(float(rng.uniform(0.3, 0.6)), 3)
                    if 'Log mean' in nm or 'Cov.' in nm or ' W' in nm:
                        x[q] = round(float(rng.uniform(-0.1, 0.2)), 3)
                # what the simulated system of every individual receives: the protocol the solver ran with (C10 at the
                # level of the controller) -- one solve per individual, in the order of the individuals
                refsim.clear_events()
                with warnings.catch_warnings():
                    warnings.simplefilter('error', RuntimeWarning)
                    gv = got(x.copy())
                runs = [e for e in refsim.EVENTS if e['e'] == 'Run']
                who = [ids.index(label)] if mode == 'indiv' else list(range(len(ids)))
                exp_regs = [sorted((2.0 * a / (0.25 * d if d else 0.01), 0.5 * t, (0.25 * d if d else 0.01), 0.0, 0)
                                   for a, t, d in post['regimen'][k]) for k in who]
                got_regs = [sorted(e['protocol']) for e in runs]
                if got_regs != exp_regs:
                    fail('AppliedRegimen', 'protocol_at_solve', dict(label=label, got=got_regs, expected=exp_regs))
                with warnings.catch_warnings():
                    warnings.simplefilter('error', RuntimeWarning)
                    ev = exp(x.copy())
                    gs, gg = got.evaluateS1(x.copy())
                    es, eg = exp.evaluateS1(x.copy())
                cnt['evaluations'] = cnt.get('evaluations', 0) + 4
                if not (np.isfinite(ev) and np.isfinite(es)):
                    fail('Posterior', 'oracle_not_finite', dict(label=label, x=x.tolist(), names=list(names)))
                elif not interp.close(gv, ev, rtol=1e-7) or not interp.close(gs, es, rtol=1e-7):
                    fail('Posterior', 'value', dict(label=label, got=[float(gv), float(gs)], expected=[float(ev), float(es)]))
                elif not interp.close(np.asarray(gg, dtype=float), np.asarray(eg, dtype=float), rtol=1e-5, atol=1e-6):
                    fail('Posterior', 'gradient', dict(label=label, got=np.asarray(gg).tolist(), expected=np.asarray(eg).tolist()))
                if mode == 'indiv' and np.isfinite(gv):
                    # the documented sum itself, independent of chi.LogLikelihood: every non-missing measurement of a mapped
                    # observable once, scored by the error model of ITS output with that output's parameters (an individual may
                    # have no measurement of the first output), plus the log-prior
                    k = ids.index(label)
                    m_k, _, tms_k = hand_ll(k)
                    nmech = m_k.n_parameters()
                    obs_k = [meas_vals(post['ids'][k], 'm1'), meas_vals(post['ids'][k], 'm2')]
                    tot = sum(float(np.real(interp.gauss(x[q], 1.0 + 0.05 * q, 1.5))) for q in range(nn))
                    for o, (kind_o, sl) in enumerate((('G', slice(nmech, nmech + 1)), ('C', slice(nmech + 1, nmech + 3)))):
                        if len(obs_k[o]):
                            sim = np.asarray(m_k.simulate(x[:nmech].copy(), np.asarray(tms_k[o], dtype=float)), dtype=float)
                            for j, y in enumerate(obs_k[o]):
                                tot += float(np.real(interp.ERR[kind_o](y, sim[o][j], x[sl])))
                    cnt['evaluations'] = cnt.get('evaluations', 0) + 1
                    if not interp.close(gv, tot, rtol=1e-6):
                        fail('Posterior', 'value_vs_documented_sum', dict(label=label, got=float(gv), expected=tot,
                                                                          n_obs=[len(obs_k[0]), len(obs_k[1])]))
            # ---- the DEFAULT output-observable map (no dictionary given): outputs are matched to the observables of the SAME
            # NAME, whatever else the table holds and whichever observable comes first -- a single-output model, the column
            # holding its output's name, against the same problem with the map written out
            if mode == 'indiv' and 'individual_without_measurements' not in feats:
                with warnings.catch_warnings():
                    warnings.simplefilter('ignore')
                    one = base_model()
                    one.set_outputs([OUTPUTS[0]])
                    fr1 = frame.copy(deep=True)
                    fr1['Observable'] = fr1['Observable'].replace({'Obs A': OUTPUTS[0]})
                    pair = []
                    for explicit in (False, True):
                        c1 = chi.ProblemModellingController(one, [chi.GaussianErrorModel()])
                        c1.set_data(fr1, output_observable_dict=({OUTPUTS[0]: OUTPUTS[0]} if explicit else None))
                        c1.set_log_prior(pints.ComposedLogPrior(*pri[:c1.get_n_parameters()]))
                        p1 = c1.get_log_posterior(individual=ids[0])
                        pair.append((int(np.sum(p1.get_log_likelihood().n_observations())),
                                     float(p1(np.array([1.1, 0.9, 0.7, 0.4])))))
                cnt['evaluations'] = cnt.get('evaluations', 0) + 2
                cnt['default_output_observable_map'] = 1
                if pair[0][0] != pair[1][0] or not interp.close(pair[0][1], pair[1][1]):
                    fail('Posterior', 'default_output_observable_map', dict(default=pair[0], written_out=pair[1]))
            if x is None or 'individual_without_measurements' in feats:
                return fails, cnt            # (structure only, see above: the later stages evaluate posteriors)
            # ---- the data is set a SECOND time, without a dose table: nothing of the first dataset's regimens survives --
            if mode == 'indiv' and not fails and any(post['regimen'][k] for k in range(len(ids))):
                ctrl.set_data(frame.drop(columns=['Dose', 'Duration']), dose_key=None, dose_duration_key=None,
                              output_observable_dict={OUTPUTS[0]: 'Obs A', OUTPUTS[1]: 'Obs B'})
                ctrl.set_log_prior(pints.ComposedLogPrior(*pri))
                cnt['second_set_data_without_doses'] = 1
                if ctrl.get_dosing_regimens() is not None:
                    fail('Regimen', 'regimens_survive_a_dataset_without_doses', dict(got=str(ctrl.get_dosing_regimens())[:200]))
                k0 = [k for k in range(len(ids)) if post['regimen'][k]][0]
                refsim.clear_events()
                with warnings.catch_warnings():
                    warnings.simplefilter('ignore')
                    ctrl.get_log_posterior(individual=ids[k0])(x.copy())
                runs = [e for e in refsim.EVENTS if e['e'] == 'Run']
                if not runs or any(e['protocol'] for e in runs):
                    fail('AppliedRegimen', 'doses_of_the_previous_dataset_applied', dict(protocols=[e['protocol'] for e in runs]))
            # ---- the population model is swapped on the SAME controller for one reading the other covariate ----------
            if mode == 'popcov' and not fails:
                ctrl.set_population_model(population_model(mode, 'A'))
                ctrl.set_log_prior(pints.ComposedLogPrior(*pri))
                got2 = ctrl.get_log_posterior()
                pop2 = population_model(mode, 'A')
                pop2.set_dim_names(lls[0].get_parameter_names())
                covs2 = np.array([[age_value(i)] for i in post['ids']])
                exp2 = chi.HierarchicalLogPosterior(chi.HierarchicalLogLikelihood(lls, pop2, covs2), pints.ComposedLogPrior(*pri))
                with warnings.catch_warnings():
                    warnings.simplefilter('error', RuntimeWarning)
                    gv2, ev2 = got2(x.copy()), exp2(x.copy())
                cnt['evaluations'] = cnt.get('evaluations', 0) + 2
                cnt['population_model_swapped'] = 1
                if list(got2.get_parameter_names()) != list(exp2.get_parameter_names()) or not interp.close(gv2, ev2, rtol=1e-7):
                    fail('Posterior', 'value_after_population_model_swap', dict(got=float(gv2), expected=float(ev2)))
        if not frame.equals(frame_in):
            fail('NoInputWrite', 'data_frame_modified', None)
    except Exception as e:
        import traceback
        fail('Evaluable', type(e).__name__, dict(error=repr(e), tb=traceback.format_exc()[-600:]))
    return fails, cnt
