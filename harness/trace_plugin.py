"""pytest plugin: runs the repository's solver-dependent tests on RefSim with the method recorders
on, and writes one recorded trace per test module to $VERIF_TRACE_OUT (their own assertions are
irrelevant here; their call sequences are the input of the trace validation)."""
import json
import os
import sys

sys.path.insert(0, os.path.dirname(os.path.dirname(os.path.abspath(__file__))))
os.environ['CHI_VERIF'] = '1'
from harness import refsim, recorders  # noqa: E402

refsim.install()
import chi  # noqa: E402

recorders.install(chi)
_state = {'module': None, 'traces': []}


def _flush():
    if _state['module'] is not None and refsim.EVENTS:
        _state['traces'].append(dict(name=_state['module'], trace=recorders.abstract_trace(refsim.EVENTS)))
    refsim.clear_events()


def pytest_runtest_protocol(item, nextitem):
    mod = item.module.__name__
    if mod != _state['module']:
        _flush()
        _state['module'] = mod
    return None


def pytest_sessionfinish(session, exitstatus):
    _flush()
    out = os.environ.get('VERIF_TRACE_OUT')
    if out:
        with open(out, 'w') as f:
            json.dump(_state['traces'], f)
