"""C16: every sampling entry point of chi is (a) run under recording generators -- the event trace
of each call is validated by TLC against Trace_RandomStreams -- and (b) run with the REAL NumPy
generators in the call histories the stream properties speak about (same seed twice with the global
generator perturbed in between, two different seeds, a Generator object passed twice), comparing
the equal / different pattern of the results with the one the specification implies."""
import warnings

import numpy as np

from . import probes, recgen

chi = probes.chi
import pints  # noqa: E402
import xarray as xr  # noqa: E402

TIMES = [2.0, 0.5, 1.0]


def _pred_model(nout=2):
    mech = probes.ProbeMech(2, nout, tag='rs')
    ems = [chi.GaussianErrorModel(), chi.LogNormalErrorModel(), chi.ConstantAndMultiplicativeGaussianErrorModel()][:nout]
    return chi.PredictiveModel(mech, ems)


def _posterior_dataset(names, n_chains=2, n_draws=3, ids=('a', 'b')):
    rng = np.random.default_rng(3)
    data = {}
    for k, n in enumerate(names):
        data[n] = (('chain', 'draw', 'individual'), np.round(rng.uniform(0.6, 1.4, size=(n_chains, n_draws, len(ids))), 3))
    return xr.Dataset(data, coords={'chain': list(range(n_chains)), 'draw': list(range(n_draws)), 'individual': list(ids)})


def entry_points():
    eps = []

    def add(name, fn, stochastic=True, gen_ok=True, discrete=False, axis=None, between=None, fresh=None):
        # fresh: the same seeded call on a NEWLY built object (a seeded result depends on arguments and seed only)
        # axis: the axis of the returned array that runs over the samples of the call (None: a table, not judged cell-wise)
        # between: ANOTHER call on the same object made between two seeded calls (default: the same call, unseeded)
        eps.append(dict(name=name, fn=fn, stochastic=stochastic, gen_ok=gen_ok, discrete=discrete, axis=axis, between=between,
                        fresh=fresh))
    mo = np.array([1.0, 2.0, 1.5])
    for kind, par in (('G', [0.5]), ('M', [0.3]), ('C', [0.4, 0.2]), ('L', [0.3])):
        em = probes.error_model(kind)
        add('ErrorModel[%s].sample' % kind, lambda seed, em=em, par=par: em.sample(par, mo, n_samples=3, seed=seed), axis=1)
    rem = chi.ReducedErrorModel(chi.ConstantAndMultiplicativeGaussianErrorModel())
    rem.fix_parameters({'Sigma rel.': 0.2})
    add('ReducedErrorModel.sample', lambda seed: rem.sample([0.4], mo, n_samples=3, seed=seed), axis=1)
    pops = {
        'Gaussian': (chi.GaussianModel(n_dim=2), [1.0, 1.2, 0.3, 0.4], {}),
        'Gaussian-nc': (chi.GaussianModel(centered=False), [1.0, 0.3], {}),
        'LogNormal': (chi.LogNormalModel(), [0.1, 0.3], {}),
        'LogNormal-nc': (chi.LogNormalModel(centered=False), [0.1, 0.3], {}),
        'TruncatedGaussian': (chi.TruncatedGaussianModel(), [1.0, 0.5], {}),
        'Heterogeneous': (chi.HeterogeneousModel(n_ids=3), [0.5, 1.0, 1.5], {}),
        'Composed': (chi.ComposedPopulationModel([chi.GaussianModel(), chi.LogNormalModel(), chi.PooledModel()]),
                     [1.0, 0.3, 0.1, 0.2, 0.7], {}),
        'Covariate': (chi.CovariatePopulationModel(chi.GaussianModel(), chi.LinearCovariateModel(n_cov=1)),
                      [1.0, 0.3, 0.1, 0.05], {'covariates': np.array([[0.5]])}),
    }
    red = chi.ReducedPopulationModel(chi.ComposedPopulationModel([chi.GaussianModel(), chi.LogNormalModel()]))
    red.fix_parameters({'Std. Dim. 1': 0.3})
    pops['Reduced'] = (red, [1.0, 0.1, 0.2], {})
    for name, (pm, par, kw) in pops.items():
        add('PopulationModel[%s].sample' % name,
            lambda seed, pm=pm, par=par, kw=kw: pm.sample(par, n_samples=3, seed=seed, **kw),
            discrete=(name == 'Heterogeneous'), axis=0)
    add('PopulationModel[Pooled].sample', lambda seed: chi.PooledModel().sample([0.7], n_samples=3, seed=seed),
        stochastic=False)
    pm = _pred_model(2)
    add('PredictiveModel.sample', lambda seed: pm.sample([1.0, 0.8, 0.3, 0.2], TIMES, n_samples=2, seed=seed, return_df=False), axis=2)
    pm1 = _pred_model(1)
    add('PredictiveModel[1 output].sample', lambda seed: pm1.sample([1.0, 0.8, 0.3], TIMES, n_samples=2, seed=seed, return_df=False), axis=2)
    ppm = chi.PopulationPredictiveModel(pm, chi.ComposedPopulationModel([
        chi.LogNormalModel(n_dim=2), chi.GaussianModel(centered=False), chi.LogNormalModel()]))
    add('PopulationPredictiveModel.sample',
        lambda seed: ppm.sample([0.0, -0.2, 0.2, 0.2, 0.4, 0.05, -1.5, 0.2], TIMES, n_samples=3, seed=seed, return_df=False), axis=2)
    # replicate measurements (a time point requested more than once): every one of them has its own noise
    REP = [2.0, 0.5, 0.5, 1.0, 2.0]
    add('PredictiveModel[replicate times].sample',
        lambda seed: pm.sample([1.0, 0.8, 0.3, 0.2], REP, n_samples=2, seed=seed, return_df=False), axis=2)
    add('PopulationPredictiveModel[replicate times].sample',
        lambda seed: ppm.sample([0.0, -0.2, 0.2, 0.2, 0.4, 0.05, -1.5, 0.2], REP, n_samples=3, seed=seed, return_df=False), axis=2)
    prior = pints.ComposedLogPrior(pints.UniformLogPrior(0.5, 1.5), pints.UniformLogPrior(0.5, 1.0),
                                   pints.UniformLogPrior(0.2, 0.4), pints.UniformLogPrior(0.1, 0.3))
    prp = chi.PriorPredictiveModel(pm, prior)
    add('PriorPredictiveModel.sample',
        lambda seed: prp.sample(TIMES, n_samples=2, seed=seed)['Value'].to_numpy(dtype=float), gen_ok=False)
    # the prior predictive model over a POPULATION predictive model: every sample has its own draw from the prior
    prior_pop = pints.ComposedLogPrior(*[pints.UniformLogPrior(0.9 * v_, 1.1 * v_ + 0.01) if v_ > 0 else
                                         pints.UniformLogPrior(1.1 * v_ - 0.01, 0.9 * v_) for v_ in
                                         [0.0, -0.2, 0.2, 0.2, 0.4, 0.05, -1.5, 0.2]])
    prp_pop = chi.PriorPredictiveModel(ppm, prior_pop)
    add('PriorPredictiveModel[population].sample',
        lambda seed: prp_pop.sample(TIMES, n_samples=3, seed=seed)['Value'].to_numpy(dtype=float), gen_ok=False)
    post = _posterior_dataset(pm.get_parameter_names())
    pop = chi.PosteriorPredictiveModel(pm, post)
    pop.sample(TIMES, n_samples=1, individual='a', seed=0)          # (the object was used for ANOTHER individual first)
    add('PosteriorPredictiveModel.sample',
        lambda seed: pop.sample(TIMES, n_samples=2, individual='b', seed=seed)['Value'].to_numpy(dtype=float),
        between=lambda: pop.sample(TIMES, n_samples=3, individual='a', seed=None),      # (another individual in between)
        fresh=lambda seed: chi.PosteriorPredictiveModel(pm, post).sample(TIMES, n_samples=2, individual='b', seed=seed)['Value'].to_numpy(dtype=float))
    pam = chi.PAMPredictiveModel([pop, chi.PosteriorPredictiveModel(pm, post)], weights=[2, 1])
    add('PAMPredictiveModel.sample',
        lambda seed: pam.sample(TIMES, n_samples=3, individual='a', seed=seed).sort_values(['ID', 'Observable', 'Time'])['Value'].to_numpy(dtype=float),
        between=lambda: pam.sample(TIMES, n_samples=2, individual='b', seed=None))
    ll = chi.LogLikelihood(probes.ProbeMech(2, 1, tag='rsll'), chi.GaussianErrorModel(), [1.0, 2.0], [0.5, 1.0])
    lp = chi.LogPosterior(ll, pints.ComposedLogPrior(pints.GaussianLogPrior(1, 0.2), pints.GaussianLogPrior(1, 0.2),
                                                     pints.LogNormalLogPrior(-1, 0.2)))
    add('LogPosterior.sample_initial_parameters', lambda seed: lp.sample_initial_parameters(n_samples=2, seed=seed),
        gen_ok=False, axis=0)
    lls = [chi.LogLikelihood(probes.ProbeMech(2, 1, tag='rsh%d' % i), chi.GaussianErrorModel(), [1.0, 2.0], [0.5, 1.0])
           for i in range(2)]
    hll = chi.HierarchicalLogLikelihood(lls, chi.ComposedPopulationModel([
        chi.LogNormalModel(), chi.PooledModel(), chi.GaussianModel(centered=False)]))
    hp = chi.HierarchicalLogPosterior(hll, pints.ComposedLogPrior(
        pints.GaussianLogPrior(0, 0.2), pints.LogNormalLogPrior(-1, 0.2), pints.GaussianLogPrior(1, 0.2),
        pints.GaussianLogPrior(0.5, 0.1), pints.LogNormalLogPrior(-1, 0.2)))
    add('HierarchicalLogPosterior.sample_initial_parameters',
        lambda seed: hp.sample_initial_parameters(n_samples=3, seed=seed), gen_ok=False, axis=0)
    # no individual-level parameters at all (every dimension pooled or heterogeneous): another path through the sampler
    lls2 = [chi.LogLikelihood(probes.ProbeMech(2, 1, tag='rsp%d' % i), chi.GaussianErrorModel(), [1.0, 2.0], [0.5, 1.0])
            for i in range(2)]
    hll2 = chi.HierarchicalLogLikelihood(lls2, chi.ComposedPopulationModel([chi.PooledModel(n_dim=2), chi.HeterogeneousModel()]))
    hp2 = chi.HierarchicalLogPosterior(hll2, pints.ComposedLogPrior(
        pints.GaussianLogPrior(1, 0.2), pints.GaussianLogPrior(1, 0.2), pints.LogNormalLogPrior(-1, 0.2),
        pints.LogNormalLogPrior(-1, 0.2)))
    add('HierarchicalLogPosterior[no individual-level parameters].sample_initial_parameters',
        lambda seed: hp2.sample_initial_parameters(n_samples=2, seed=seed), gen_ok=False, axis=0)
    # the filter posterior: top-level parameters from the prior, simulated individuals from the population model, one noise
    # realisation per simulated individual, observable and time -- for EVERY requested starting point
    fdata = np.array([[[1.0, 2.0, 1.5]], [[1.2, 1.8, 1.1]], [[0.9, 2.2, 1.4]]])
    fp = chi.PopulationFilterLogPosterior(
        chi.GaussianFilter(fdata), np.array([0.5, 1.0, 1.5]), probes.ProbeMech(2, 1, tag='rsfp'),
        chi.ComposedPopulationModel([chi.LogNormalModel(), chi.PooledModel()]),
        pints.ComposedLogPrior(pints.GaussianLogPrior(0, 0.2), pints.LogNormalLogPrior(-1, 0.2), pints.GaussianLogPrior(1, 0.2),
                               pints.LogNormalLogPrior(-1, 0.2)), n_samples=4)
    add('PopulationFilterLogPosterior.sample_initial_parameters',
        lambda seed: fp.sample_initial_parameters(n_samples=3, seed=seed), gen_ok=False, axis=0)
    return eps


_EPS = []


def eps():
    if not _EPS:
        with warnings.catch_warnings():
            warnings.simplefilter('ignore')
            _EPS.extend(entry_points())
    return _EPS


def _key(k):
    return [str(k[0]), 'unknown' if k[1] is None else str(k[1])]


def record_trace(i, seed_kind):
    """the abstract event trace of one sampling call of entry point i"""
    ep = eps()[i]
    with warnings.catch_warnings():
        warnings.simplefilter('ignore')
        with recgen.recording(chi) as rec:
            begin = dict(e='Begin', seed_kind=seed_kind.split(':')[0], gen_key=['none', 'none'], gen_pos=0)
            if seed_kind.startswith('int'):
                # integer seeds: an ordinary one, zero (a legal seed that is falsy) and a NumPy integer
                seed = {'int': 11, 'int:zero': 0, 'int:np': np.int64(5)}[seed_kind]
            elif seed_kind == 'none':
                seed = None
            else:
                seed = np.random.default_rng(9)
                seed.normal(size=3)
                begin.update(gen_key=_key(seed._key), gen_pos=seed._pos)
                del rec.events[:]
            try:
                ep['fn'](seed)
                err = None
            except Exception as e:
                err = repr(e)
    trace = [begin]
    for e in rec.events:
        if e['e'] == 'Draw':
            trace.append(dict(e='Draw', key=_key(e['key']), pos=e['pos'], n=e['n']))
        elif e['e'] == 'GlobalSeed':
            trace.append(dict(e='GlobalSeed', seed='unknown' if e['seed'] is None else str(e['seed'])))
        elif e['e'] == 'GlobalDraw':
            trace.append(dict(e='GlobalDraw', n=e['n']))
        elif e['e'] == 'GlobalRestore':
            trace.append(dict(e='GlobalRestore', seed='unknown' if e['seed'] is None else str(e['seed']), pos=int(e['pos'])))
        elif e['e'] in ('MakeGen', 'Adopt'):
            trace.append(dict(e=e['e'], key=_key(e['key'])))
    return trace, err


def pattern_case(i):
    """equality pattern of results with the REAL generators; returns list of (clause, manifestation, detail)"""
    ep = eps()[i]
    out = []
    fn = ep['fn']
    with warnings.catch_warnings():
        warnings.simplefilter('ignore')
        try:
            np.random.seed(101)
            a = np.asarray(fn(7), dtype=float)
            np.random.seed(202)
            np.random.normal(size=5)
            (ep.get('between') or (lambda: fn(None)))()   # an unrelated sampling call in between
            b = np.asarray(fn(7), dtype=float)
            if a.shape != b.shape or not np.array_equal(a, b):
                out.append(('Reproducible', 'same_seed_differs', dict(first=a.flatten()[:4].tolist(), second=b.flatten()[:4].tolist())))
            if ep.get('fresh'):
                f_ = np.asarray(ep['fresh'](7), dtype=float)
                if f_.shape != b.shape or not np.array_equal(f_, b):
                    out.append(('Reproducible', 'used_object_differs_from_a_fresh_one', dict(used=b.flatten()[:4].tolist(),
                                                                                             fresh=f_.flatten()[:4].tolist())))
            for s0 in (0, np.int64(3)):                # zero is a seed like any other; so is a NumPy integer
                np.random.seed(303)
                a0 = np.asarray(fn(s0), dtype=float)
                np.random.seed(404)
                np.random.normal(size=2)
                b0 = np.asarray(fn(s0), dtype=float)
                if a0.shape != b0.shape or not np.array_equal(a0, b0):
                    out.append(('Reproducible', 'same_seed_differs', dict(seed=repr(s0), first=a0.flatten()[:4].tolist(),
                                                                          second=b0.flatten()[:4].tolist())))
            if ep['stochastic'] and not ep['discrete']:   # finitely many outcomes may coincide by chance
                np.random.seed(101)
                c = np.asarray(fn(8), dtype=float)
                if a.shape == c.shape and np.array_equal(a, c):
                    out.append(('SeedSensitive', 'different_seeds_equal', None))
                # ... and NEIGHBOURING seeds (7 and 8) share no sample either: the streams of different seeds do not overlap
                if ep.get('axis') is not None and a.shape == c.shape and a.ndim > ep['axis'] and a.shape[ep['axis']] >= 2:
                    A_ = np.moveaxis(a, ep['axis'], 0).reshape(a.shape[ep['axis']], -1)
                    C_ = np.moveaxis(c, ep['axis'], 0).reshape(a.shape[ep['axis']], -1)
                    shared = [(i_, j_) for i_ in range(len(A_)) for j_ in range(len(C_)) if np.array_equal(A_[i_], C_[j_])]
                    if shared:
                        out.append(('SeedSensitive', 'neighbouring_seeds_share_a_sample', dict(pairs=shared[:3])))
                # "within one call ... samples are mutually independent": a cell whose value depends on the seed is a continuous
                # random variable; two samples of one call that share its value (probability zero under independence) share
                # the draw
                if ep.get('axis') is not None and a.shape == c.shape and a.ndim > ep['axis'] and a.shape[ep['axis']] >= 2:
                    A = np.moveaxis(a, ep['axis'], 0).reshape(a.shape[ep['axis']], -1)
                    C = np.moveaxis(c, ep['axis'], 0).reshape(a.shape[ep['axis']], -1)
                    for j in range(A.shape[1]):
                        if np.any(A[:, j] != C[:, j]) and len(set(A[:, j].tolist())) < A.shape[0]:
                            out.append(('Independent', 'samples_of_one_call_share_a_draw',
                                        dict(cell=j, values=A[:, j].tolist(), n_cells=int(A.shape[1]))))
                            break
                    else:
                        # ... and so for ANY two cells of one call (two time points, two outputs, two dimensions): every cell
                        # that depends on the seed carries noise of its own
                        dep = (a != c)
                        vals = a[dep].tolist()
                        if len(set(vals)) < len(vals):
                            out.append(('Independent', 'cells_of_one_call_share_a_draw',
                                        dict(seed_dependent_cells=len(vals), distinct=len(set(vals)))))
                if ep['gen_ok']:
                    g = np.random.default_rng(7)
                    d1 = np.asarray(fn(g), dtype=float)
                    d2 = np.asarray(fn(g), dtype=float)
                    if np.array_equal(d1, d2):
                        out.append(('Advanced', 'generator_restarted', None))
        except Exception as e:
            out.append(('Evaluable', type(e).__name__, repr(e)))
    return out


def unseeded_copies_independence():
    """UNSEEDED sampling (seed=None) draws fresh entropy wherever it happens: the noise of two outputs that were given the same
    error-model OBJECT, of two predictive models built from one error model, and of an error model and its deep copy share
    nothing (identical residuals have probability zero)."""
    import copy
    fails = []
    em = chi.GaussianErrorModel()
    mech = probes.ProbeMech(2, 2, tag='rsuc')
    with warnings.catch_warnings():
        warnings.simplefilter('ignore')
        pm2 = chi.PredictiveModel(mech, [em, em])
        par = [1.0, 0.8, 0.3, 0.3]
        x = np.asarray(pm2.sample(par, TIMES, n_samples=3, seed=None, return_df=False), dtype=float)
        base = np.asarray(mech.simulate(np.array(par[:2]), np.sort(np.array(TIMES))), dtype=float)
        r = x - base[:, :, None]
        if np.allclose(r[0], r[1], rtol=0, atol=1e-12):
            fails.append(('Independent', 'unseeded_noise_shared_between_outputs', dict(residuals=r[0].flatten()[:3].tolist())))
        pa, pb = chi.PredictiveModel(mech, [em, chi.GaussianErrorModel()]), chi.PredictiveModel(mech, [em, chi.GaussianErrorModel()])
        xa = np.asarray(pa.sample(par, TIMES, n_samples=3, seed=None, return_df=False), dtype=float)
        xb = np.asarray(pb.sample(par, TIMES, n_samples=3, seed=None, return_df=False), dtype=float)
        if np.allclose(xa[0], xb[0], rtol=0, atol=1e-12):
            fails.append(('Independent', 'unseeded_noise_shared_between_models_built_from_one_error_model', None))
        e1, e2 = chi.LogNormalErrorModel(), None
        e2 = copy.deepcopy(e1)
        y1 = np.asarray(e1.sample([0.3], [1.0, 2.0, 1.5], n_samples=3, seed=None), dtype=float)
        y2 = np.asarray(e2.sample([0.3], [1.0, 2.0, 1.5], n_samples=3, seed=None), dtype=float)
        if np.allclose(y1, y2, rtol=0, atol=1e-12):
            fails.append(('Independent', 'unseeded_noise_shared_with_a_deep_copy', None))
    return fails


def within_call_independence():
    """"Within one call ... individuals and samples are mutually independent": for samplers that CHOOSE among finitely many
    outcomes (the heterogeneous model draws an individual per sample) independence is visible in the frequency with which
    two samples of one call coincide: 1 / n_ids.  300 calls with the integer seeds 0..299 (deterministic); binomial
    acceptance interval at level 1e-9."""
    from scipy import stats
    fails = []
    for n_ids, n_samples in ((3, 2), (3, 3), (5, 2)):
        m = chi.HeterogeneousModel()
        m.set_n_ids(n_ids)
        par = [10.0 * (i + 1) for i in range(n_ids)]
        comp = chi.ComposedPopulationModel([chi.PooledModel(), chi.HeterogeneousModel()])
        comp.set_n_ids(n_ids)
        for name, fn in (('HeterogeneousModel', lambda s_: m.sample(par, n_samples=n_samples, seed=s_)),
                         ('ComposedPopulationModel[P, H]', lambda s_: comp.sample([1.0] + par, n_samples=n_samples, seed=s_)[:, 1:])):
            rep = 0
            for s_ in range(300):
                x = np.asarray(fn(s_), dtype=float).reshape(n_samples, -1)
                rep += int(np.array_equal(x[0], x[1]))
            lo, hi = stats.binom.ppf([5e-10, 1 - 5e-10], 300, 1.0 / n_ids)
            if not (lo <= rep <= hi):
                fails.append(('Independent', 'samples_of_one_call_not_independent',
                              dict(sampler=name, n_ids=n_ids, n_samples=n_samples, first_two_equal=rep, calls=300,
                                   accepted=[float(lo), float(hi)])))
    return fails
