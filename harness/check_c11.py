"""C11 -- mechanistic model behaviour depends only on its final configuration (module MechModel).

1. TLC: exhaustive exploration of all histories of public calls (micro-step programs over the hidden
   solver state) for one (quick) / two (thorough) instances: ProtocolFollowsRegimen,
   RunIsConsistent, NoSharing, HistoryIndependence; both re-administration designs (keep / clear);
   the as-found design (no re-attachment) must be refuted.
2. spec -> code: every public-call transition of the single-instance graph on two model families,
   plus TLC-simulated behaviours over two instances (with copies), each compared with fresh
   canonically configured models after every call.
3. code -> spec: the RefSim + recorder traces of those behaviours and of the repository's own
   solver-dependent tests are validated by TLC against Trace_MechModel; a corrupted trace must be
   rejected (binding control).
"""
import json
import os
import subprocess
import sys

from . import tlc
from .cache import cached
from .common import MachineryError, WORK, CHI_SRC, VERIF
from .verdict import Verdict, pmap

PROP = 'C11'
ASSUME = [
    'RefSim stands in for myokit.Simulation (see C09); the protocol a solver holds is observed at RefSim',
    'net configuration = (administration, regimen, outputs, renames, sensitivities); a fresh model configured in the '
    'canonical order administration, regimen, outputs, renames, sensitivities is the oracle (fresh-model correctness: C09, C10)',
    'a change of administration KEEPS an earlier regimen (the code reports it afterwards); the "clear" design is model-checked too',
    'model families: library one-compartment PK model; generated 3-state chain with intermediate output',
    'fixing parameters (ReducedMechanisticModel) is judged by C08',
]
REPO_TESTS = {
    'quick': ['chi/tests/test_mechanistic_models.py', 'chi/tests/test_predictive_models.py'],
    'thorough': ['chi/tests/test_mechanistic_models.py', 'chi/tests/test_log_pdfs.py', 'chi/tests/test_predictive_models.py',
                 'chi/tests/test_problems.py', 'chi/tests/test_inference.py'],
}


def walk_worker(arg):
    """replays one behaviour with recording on; returns (fails, counters, abstract trace)"""
    from . import replay_mechmodel, recorders, refsim
    recorders.install(replay_mechmodel.chi)
    refsim.clear_events()
    fails, cnt = replay_mechmodel.replay_walk(arg)
    trace = recorders.abstract_trace(refsim.EVENTS)
    refsim.clear_events()
    if cnt.get('invalid_calls_accepted'):
        trace = None        # (the behaviour left the specification: it contains an invalid call that chi accepted)
    return fails, cnt, trace


def repo_test_traces(tier):
    out = os.path.join(WORK, 'repo-traces-%d.json' % os.getpid())
    env = dict(os.environ, VERIF_TRACE_OUT=out, PYTHONPATH=VERIF + os.pathsep + CHI_SRC, CHI_VERIF='1')
    cmd = [sys.executable, '-m', 'pytest', '-q', '-p', 'no:cacheprovider', '-p', 'harness.trace_plugin'] + REPO_TESTS[tier]
    p = subprocess.run(cmd, cwd=CHI_SRC, env=env, stdout=subprocess.PIPE, stderr=subprocess.STDOUT, text=True, timeout=1800)
    if not os.path.exists(out):
        raise MachineryError('repository tests produced no traces:\n' + p.stdout[-2000:])
    with open(out) as f:
        traces = json.load(f)
    os.remove(out)
    return traces


def _compute(tier, seed):
    runs = []
    r = tlc.run('MechModel', 'MechModel_quick.cfg')
    runs.append(r.summary())
    transitions = r.records
    if tier == 'thorough':
        runs.append(tlc.run('MechModel', 'MechModel_thorough.cfg', want_records=False).summary())
    runs.append(tlc.run('MechModel', 'MechModel_clear.cfg', want_records=False).summary())
    try:
        tlc.run('MechModel', 'MechModel_asfound.cfg', want_records=False)
        raise MachineryError('negative control failed: as-found design not refuted')
    except tlc.SpecViolation as e:
        if e.res.violated not in ('ProtocolFollowsRegimen', 'RunIsConsistent', 'HistoryIndependence'):
            raise MachineryError('as-found design refuted on %s' % e.res.violated)
    sim = tlc.simulate('MechModel', 'MechModel_walks.cfg', num=(60 if tier == 'quick' else 500), depth=60, seed=seed + 1)
    walks = sim.records
    from . import replay_mechmodel
    fams = ('onecomp', 'chain')
    if tier == 'quick':
        # every transition on ONE of the two model families, chosen by content and rotating with the seed (thorough: on both)
        from .common import digest
        jobs = [(rec, fams[(int(digest(rec), 16) + seed) % 2], seed) for rec in transitions]
    else:
        jobs = [(rec, fam, seed) for rec in transitions for fam in fams]
    tres = pmap(replay_mechmodel.replay_transition, jobs)
    wres = pmap(walk_worker, [(w, fams[i % 2], seed) for i, w in enumerate(walks)])
    traces = [t for _, _, t in wres if t]
    names = ['walk-%d' % i for i in range(len(traces))]
    for t in repo_test_traces(tier):
        traces.append(t['trace'])
        names.append('repo:' + t['name'])
    from . import validate_traces
    vres, verdicts = validate_traces.validate_mech(traces, tag='c11')
    # binding control: drop one SetProtocol that follows a NewSim inside a call and expect a rejection
    ctrl = None
    for t in traces:
        idx = [i for i, e in enumerate(t) if e['e'] == 'SetProtocol' and i > 0 and t[i - 1]['e'] == 'NewSim' and e['prot'] != 0]
        if idx:
            bad = t[:idx[0]] + t[idx[0] + 1:]
            _, cv = validate_traces.validate_mech([bad], tag='c11ctrl')
            ctrl = cv[0]
            break
    if ctrl is None or ctrl['clause'] == '':
        raise MachineryError('binding control failed: corrupted trace accepted (%r)' % (ctrl,))
    return dict(runs=runs, ntrans=len(transitions), tres=tres, wres=[(f, c) for f, c, _ in wres], nwalks=len(walks),
                verdicts=list(zip(names, verdicts)), trace_run=vres.summary(), ctrl=ctrl,
                samples=[transitions[7], [dict(op=x['op']) for x in walks[0]]],
                nevents=sum(len(t) for t in traces))


def run(tier, seed):
    v = Verdict(PROP, tier, seed)
    out = cached('mechmodel', tier, seed, lambda: _compute(tier, seed))
    for fails, cnt in out['tres'] + out['wres']:
        v.failures(fails)
        v.merge_counters(cnt)
    for name, vd in out['verdicts']:
        if vd['clause'] != '':
            v.failure(dict(case=dict(trace=name), clause='Trace:' + vd['clause'], manifestation='rejected',
                           detail=vd, features=['trace', 'repo_test' if name.startswith('repo:') else 'walk']))
    # the fixed-parameter wrapper of a mechanistic model is a mechanistic model too: its behaviour after every history of
    # fix / re-fix / release and sensitivity switches must be that of a plain model with the net configuration -- the shared
    # run of module FixParams (see C08), judged on the two ReducedMechanisticModel adapters
    from . import check_c08
    fx = cached('fixparams', tier, seed, lambda: check_c08._compute(tier, seed))
    for fails, cnt in fx['results']:
        mine = [f for f in fails if any('class_ReducedMechanisticModel' in x for x in f['features'])]
        v.failures(mine)
        if cnt.get('feat_class_ReducedMechanisticModel[PKPDModel]') or cnt.get('feat_class_ReducedMechanisticModel[ProbeMech]'):
            v.count('reduced_wrapper_transitions', 1)
    for s in out['samples']:
        v.sample(s)
    nt = v.counters.get('feat_readministration_with_regimen', 0) + v.counters.get('feat_direct_after_indirect', 0)
    if nt == 0 or out['nwalks'] == 0:
        v.vacuous('vacuous run')
    cov = dict(states=sum(r['states'] for r in out['runs']), transitions=sum(r['transitions'] for r in out['runs']),
               traces_validated_against_impl=len(out['verdicts']) + out['ntrans'] * 2,
               evaluations=v.counters.get('evaluations', 0) + v.counters.get('steps', 0),
               distinct_nontrivial=nt, exhaustive=True,
               rule='every public-call transition of the single-instance state graph x 2 model families (quick: each transition on one of them, chosen by content) replayed from a '
                    'canonical source configuration; TLC -simulate behaviours of 12 calls over two instances replayed step '
                    'by step; non-trivial = administration change with a regimen set, or direct after indirect',
               tlc_runs=out['runs'], walks=out['nwalks'], trace_events=out['nevents'],
               traces=[dict(name=n, clause=vd['clause'], events=vd['events']) for n, vd in out['verdicts'] if n.startswith('repo:')],
               binding_control='trace with one SetProtocol removed rejected: %s at line %s' % (out['ctrl']['clause'], out['ctrl']['line']),
               spec_negative_control='MechModel_asfound.cfg refuted by TLC')
    return v.finish('model_checking', cov, ASSUME)


def replay(path):
    from . import replay_mechmodel
    rep = json.load(open(path))
    case = rep['case']
    if 'walk' in case:
        fails, _ = replay_mechmodel.replay_walk((case['walk'], case['family'], rep['seed']))
    elif 'config' in case:
        fails, _ = replay_mechmodel.replay_transition((case['config'], case['family'], rep['seed']))
    else:
        print('trace rejections are re-validated by re-running the check')
        return 1
    for f in fails:
        print('VIOLATION property=%s replay=%s' % (PROP, path))
        print('  clause=%s manifestation=%s detail=%s' % (f['clause'], f['manifestation'], str(f['detail'])[:400]))
        return 1
    print('replay passes')
    return 0
