"""spec -> code for module SBMLOrder (C09): for every declaration order TLC enumerates an SBML
file is generated, loaded with chi.SBMLModel / chi.PKPDModel (wrapped in a ReducedMechanisticModel
when parameters are fixed) on RefSim, and simulated with pairwise distinct values.  Oracle (i): the
RefSim event log (state vector, constants by name, sensitivity request) equals the specification's
assignment literally; oracle (ii): outputs and sensitivities equal the closed-form matrix
exponential solution and its exact parameter derivatives."""
import os
import warnings

import numpy as np

from . import refsim, sbmlgen, interp
from .common import digest

refsim.install()
from . import probes  # noqa: E402  (imports chi)

chi = probes.chi


def features(rec):
    f = []
    d = rec['decl']
    inv = [d.index(r + 1) + 1 for r in range(len(d))]
    if d != sorted(d):
        f.append('declaration_not_alphabetical')
    if inv != d:
        f.append('permutation_not_involution')
    if rec['fixed']:
        f.append('has_fixed')
    if 0 in rec['outs']:
        f.append('intermediate_output')
    return f


def replay_case(arg):
    rec, seed = arg
    fails, cnt = [], {'cases': 1}
    key = digest(rec)
    rng = np.random.default_rng([seed, int(key, 16) % (2 ** 31)])
    feats = features(rec)
    for f in feats:
        cnt['feat_' + f] = 1

    def fail(clause, manifestation, detail):
        fails.append(dict(case=dict(config=rec), clause=clause, manifestation=manifestation, detail=detail,
                          features=feats))
    ns, nc = rec['ns'], rec['nc']
    path = sbmlgen.chain_model(ns, nc, rec['decl'], rec['cdecl'])
    try:
        cls = chi.PKPDModel if rng.integers(2) else chi.SBMLModel
        model = cls(path)
        pub = ['global.' + sbmlgen.sname(r) for r in range(1, ns + 1)] + \
              ['global.' + sbmlgen.cname(k) for k in range(1, nc + 1)]
        if list(model.parameters()) != pub or model.n_parameters() != ns + nc:
            fail('Published', 'parameters', dict(got=model.parameters(), expected=pub))
            return fails, cnt
        if list(model.outputs()) != pub[:ns]:
            fail('Published', 'default_outputs', dict(got=model.outputs()))
        values = np.concatenate([1.0 + 0.5 * np.arange(1, ns + 1) + np.round(rng.uniform(0, 0.2, ns), 3),
                                 0.2 + 0.15 * np.arange(1, nc + 1) + np.round(rng.uniform(0, 0.05, nc), 3)])
        onames = ['global.yq' if o == 0 else 'global.' + sbmlgen.sname(o) for o in rec['outs']]
        model.set_outputs(onames)
        if list(model.outputs()) != onames or model.n_outputs() != len(onames):
            fail('OutputsOK', 'outputs', dict(got=model.outputs(), expected=onames))
        free = rec['free']
        if rec['fixed']:
            model = chi.ReducedMechanisticModel(model)
            model.fix_parameters({pub[k - 1]: float(values[k - 1]) for k in rec['fixed']})
            if list(model.parameters()) != [pub[k - 1] for k in free] or model.n_parameters() != len(free):
                fail('Published', 'free_parameters', dict(got=model.parameters()))
        times = np.array([0.4, 1.1, 2.5])
        vfree = values[np.array(free, dtype=int) - 1] if free else np.zeros(0)
        exp_out, exp_sens = sbmlgen.chain_reference(ns, nc, values, times, rec['outs'], free)
        exp_state = [float(values[k - 1]) for k in rec['solverstate']]
        exp_consts = [('global.' + sbmlgen.cname(k), float(values[ns + k - 1])) for k in range(1, nc + 1)]
        exp_req = ['init(global.%s)' % sbmlgen.sname(r) if kind == 'init' else 'global.' + sbmlgen.cname(r)
                   for kind, r in rec['sensrequest']]
        for with_sens in (False, True):
            refsim.clear_events()
            with warnings.catch_warnings():
                warnings.simplefilter('error', RuntimeWarning)
                if with_sens:
                    if not free:
                        break
                    model.enable_sensitivities(True)
                    out, sens = model.simulate(vfree.copy(), times.copy())
                else:
                    out = model.simulate(vfree.copy(), times.copy())
            cnt['evaluations'] = cnt.get('evaluations', 0) + 1
            evs = list(refsim.EVENTS)
            ss = [e for e in evs if e['e'] == 'SetState']
            sc = [(e['name'], e['value']) for e in evs if e['e'] == 'SetConstant']
            run = [e for e in evs if e['e'] == 'Run']
            ctx = dict(with_sens=with_sens)
            # what the solver HOLDS when it runs (initial state in its own order, every constant) -- not which setter calls
            # were made: a model that skips a redundant hand-over is as good as one that repeats it
            held_state = run[0]['state'] if run else None
            held = sorted((k_, v_) for k_, v_ in (run[0]['consts'].items() if run else []) if k_ in dict(exp_consts))
            if held_state != exp_state:
                fail('StateAssignmentOK', 'set_state', dict(ctx, got=held_state, calls=[e['values'] for e in ss], expected=exp_state))
            if held != sorted(exp_consts):
                fail('StateAssignmentOK', 'set_constant', dict(ctx, got=held, calls=sc, expected=exp_consts))
            if len(run) != 1 or run[0]['log'] != list(dict.fromkeys(onames)) and run[0]['log'] != onames:
                fail('OutputsOK', 'logged', dict(ctx, got=[e['log'] for e in run], expected=onames))
            if with_sens:
                new = [e for e in evs if e['e'] == 'NewSim']
                if len(new) != 1 or new[0]['sens_params'] != exp_req or new[0]['sens_outputs'] != onames:
                    fail('SensRequestOK', 'request', dict(got=[(e['sens_outputs'], e['sens_params']) for e in new],
                                                          expected=(onames, exp_req)))
                sens = np.asarray(sens, dtype=float)
                if sens.shape != exp_sens.shape:
                    fail('SensRequestOK', 'shape', dict(got=list(sens.shape), expected=list(exp_sens.shape)))
                elif not interp.close(sens, exp_sens, rtol=1e-6, atol=1e-7):
                    fail('Solution', 'sensitivities', dict(got=sens.tolist(), expected=exp_sens.tolist()))
            out = np.asarray(out, dtype=float)
            if out.shape != exp_out.shape:
                fail('Solution', 'shape', dict(ctx, got=list(out.shape), expected=list(exp_out.shape)))
            elif not interp.close(out, exp_out, rtol=1e-6, atol=1e-8):
                fail('Solution', 'outputs', dict(ctx, got=out.tolist(), expected=exp_out.tolist()))
        # ---- a COPY taken after the model has been used solves the same system at the same values (its solver is new: whatever
        # the original remembers about its own solver does not describe the copy's)
        if not fails:
            with warnings.catch_warnings():
                warnings.simplefilter('error', RuntimeWarning)
                model.enable_sensitivities(False)
                model.simulate(vfree.copy(), times.copy())
                cp = model.copy()
                out_c = cp.simulate(vfree.copy(), times.copy())
                if rec['fixed']:
                    # ... and the copy is a model of its own: re-fixing a parameter of the ORIGINAL to another value does not
                    # change what the copy solves (the original gets its value back afterwards)
                    k0 = rec['fixed'][0]
                    model.fix_parameters({pub[k0 - 1]: float(values[k0 - 1]) * 1.5 + 0.1})
                    out_c2 = cp.simulate(vfree.copy(), times.copy())
                    model.fix_parameters({pub[k0 - 1]: float(values[k0 - 1])})
                    if not interp.close(np.asarray(out_c2, dtype=float), exp_out, rtol=1e-6, atol=1e-8):
                        fail('Solution', 'copy_follows_the_original', dict(got=np.asarray(out_c2).tolist(), expected=exp_out.tolist()))
                if free:
                    model.enable_sensitivities(True)
            cnt['evaluations'] = cnt.get('evaluations', 0) + 2
            if not interp.close(np.asarray(out_c, dtype=float), exp_out, rtol=1e-6, atol=1e-8):
                fail('Solution', 'outputs_of_a_copy_of_a_used_model', dict(got=np.asarray(out_c).tolist(), expected=exp_out.tolist()))
        # ---- a simulation is a function of its arguments: the same solver object, sensitivities still on, is used at another
        # point and then again at the first one (the solver keeps its state AND its state sensitivities from run to run
        # unless it is reset -- RefSim does, as myokit.Simulation does)
        if not fails and free:
            with warnings.catch_warnings():
                warnings.simplefilter('error', RuntimeWarning)
                model.simulate(np.round(vfree * 1.07 + 0.01, 4), times.copy() + 0.3)
                out3, sens3 = model.simulate(vfree.copy(), times.copy())
            cnt['evaluations'] = cnt.get('evaluations', 0) + 2
            cnt['repeated_calls_with_sensitivities'] = 1
            if not interp.close(np.asarray(out3, dtype=float), exp_out, rtol=1e-6, atol=1e-8):
                fail('Solution', 'outputs_of_a_repeated_call', dict(got=np.asarray(out3).tolist(), expected=exp_out.tolist()))
            if not interp.close(np.asarray(sens3, dtype=float), exp_sens, rtol=1e-6, atol=1e-7):
                fail('Solution', 'sensitivities_of_a_repeated_call', dict(got=np.asarray(sens3).tolist(), expected=exp_sens.tolist()))
        # ---- the same outputs selected again in ANOTHER order while sensitivities are on: whatever the model returns next
        # (chi switches the sensitivities off; a model that kept them would have to re-order them) follows the new order
        if not fails and free and len(set(onames)) >= 2:
            perm = list(np.roll(np.arange(len(onames)), 1))
            model.set_outputs([onames[q] for q in perm])
            with warnings.catch_warnings():
                warnings.simplefilter('error', RuntimeWarning)
                res = model.simulate(vfree.copy(), times.copy())
            cnt['evaluations'] = cnt.get('evaluations', 0) + 1
            cnt['outputs_reordered_with_sensitivities_on'] = 1
            if list(model.outputs()) != [onames[q] for q in perm]:
                fail('OutputsOK', 'outputs_after_reorder', dict(got=model.outputs()))
            if model.has_sensitivities():
                out2, sens2 = res
                if not interp.close(np.asarray(sens2, dtype=float), exp_sens[:, perm, :], rtol=1e-6, atol=1e-7):
                    fail('Solution', 'sensitivities_after_output_reorder', dict(order=[onames[q] for q in perm]))
            else:
                out2 = res
            if not interp.close(np.asarray(out2, dtype=float), exp_out[perm], rtol=1e-6, atol=1e-8):
                fail('Solution', 'outputs_after_output_reorder', dict(order=[onames[q] for q in perm]))
        # ---- the same file behind an absorption compartment (SBMLOrder!PublishedAdmin) -----------------------
        # set_administration(direct=False) adds a state and a constant that sort to the FRONT of their groups; the
        # published order, the hand-over of values and the selection of sensitivities by name must follow.
        if not fails:
            admin_variant(rec, path, rng, fail, cnt)
    except Exception as e:
        fail('Evaluable', type(e).__name__, repr(e))
    finally:
        try:
            os.remove(path)
        except OSError:
            pass
    return fails, cnt


def admin_variant(rec, path, rng, fail, cnt):
    ns, nc = rec['ns'], rec['nc']
    target = int(rng.integers(1, ns + 1))
    model = chi.PKPDModel(path)
    model.set_administration('global', amount_var=sbmlgen.sname(target), direct=False)
    pub = ['dose.drug_amount'] + ['global.' + sbmlgen.sname(r) for r in range(1, ns + 1)] + \
          ['dose.absorption_rate'] + ['global.' + sbmlgen.cname(k) for k in range(1, nc + 1)]
    if list(model.parameters()) != pub or model.n_parameters() != len(pub):
        fail('Published', 'parameters_after_administration', dict(got=model.parameters(), expected=pub))
        return
    onames = ['global.yq' if o == 0 else 'global.' + sbmlgen.sname(o) for o in rec['outs']]
    model.set_outputs(onames)
    n = len(pub)
    values = np.concatenate([[0.9], 1.0 + 0.5 * np.arange(1, ns + 1) + np.round(rng.uniform(0, 0.2, ns), 3),
                             [0.7], 0.2 + 0.15 * np.arange(1, nc + 1) + np.round(rng.uniform(0, 0.05, nc), 3)])
    times = np.array([0.4, 1.1, 2.5])
    # a seeded proper subset of the parameters (and, every other time, all of them)
    subset = sorted(int(q) for q in rng.choice(np.arange(1, n + 1), size=int(rng.integers(1, n)), replace=False))
    cnt['admin_variants'] = cnt.get('admin_variants', 0) + 1
    for route in ('select', 'reduced'):
        with warnings.catch_warnings():
            warnings.simplefilter('error', RuntimeWarning)
            if route == 'select':
                # sensitivities requested by name on the model itself
                # (the names are listed in a shuffled order, one of them twice: the derivatives come back in the PUBLISHED
                # parameter order all the same)
                req = [pub[q - 1] for q in subset]
                req = [req[q] for q in rng.permutation(len(req))] + req[:1]
                model.enable_sensitivities(True, req)
                out, sens = model.simulate(values.copy(), times.copy())
            else:
                red = chi.ReducedMechanisticModel(model)
                fixed = [q for q in range(1, n + 1) if q not in subset]
                # (one call per parameter, in a shuffled order: the result depends on the fixed set only)
                for q in rng.permutation(fixed):
                    red.fix_parameters({pub[int(q) - 1]: float(values[int(q) - 1])})
                if list(red.parameters()) != [pub[q - 1] for q in subset]:
                    fail('Published', 'free_parameters_after_administration', dict(got=red.parameters()))
                    return
                red.enable_sensitivities(True)
                out, sens = red.simulate(values[np.array(subset) - 1].copy(), times.copy())
        cnt['evaluations'] = cnt.get('evaluations', 0) + 1
        exp_out, exp_sens = sbmlgen.chain_reference_admin(ns, nc, values, times, rec['outs'], subset, target)
        out, sens = np.asarray(out, dtype=float), np.asarray(sens, dtype=float)
        ctx = dict(route=route, subset=[pub[q - 1] for q in subset], target=sbmlgen.sname(target))
        if out.shape != exp_out.shape or not interp.close(out, exp_out, rtol=1e-6, atol=1e-8):
            fail('Solution', 'outputs_after_administration', dict(ctx, got=out.tolist(), expected=exp_out.tolist()))
        if sens.shape != exp_sens.shape:
            fail('SensRequestOK', 'shape_after_administration', dict(ctx, got=list(sens.shape), expected=list(exp_sens.shape)))
        elif not interp.close(sens, exp_sens, rtol=1e-6, atol=1e-7):
            fail('Solution', 'sensitivities_after_administration', dict(ctx, got=sens.tolist(), expected=exp_sens.tolist()))
    # ---- a RENAMED parameter is requested by its new name: the same subset, the same columns
    with warnings.catch_warnings():
        warnings.simplefilter('error', RuntimeWarning)
        old_name = pub[subset[0] - 1]
        model.set_parameter_names({old_name: 'renamed.parameter'})
        req_r = ['renamed.parameter'] + [pub[q - 1] for q in subset[1:]]
        model.enable_sensitivities(True, req_r)
        out_r, sens_r = model.simulate(values.copy(), times.copy())
        model.set_parameter_names({'renamed.parameter': old_name})
    cnt['evaluations'] = cnt.get('evaluations', 0) + 1
    exp_out_r, exp_sens_r = sbmlgen.chain_reference_admin(ns, nc, values, times, rec['outs'], subset, target)
    sens_r = np.asarray(sens_r, dtype=float)
    if sens_r.shape != exp_sens_r.shape:
        fail('SensRequestOK', 'shape_for_a_renamed_parameter', dict(got=list(sens_r.shape), expected=list(exp_sens_r.shape)))
    elif not interp.close(sens_r, exp_sens_r, rtol=1e-6, atol=1e-7):
        fail('Solution', 'sensitivities_for_a_renamed_parameter', dict(got=sens_r.tolist(), expected=exp_sens_r.tolist()))
    # ---- the dosed system: a regimen is set, sensitivities are requested and then requested AGAIN for another subset while
    # they are on (every request builds a new solver): what is solved is the system WITH the doses the model reports
    with warnings.catch_warnings():
        warnings.simplefilter('error', RuntimeWarning)
        model.set_dosing_regimen(1.5, start=0.2, duration=0.3, period=0.9, num=2)
        model.enable_sensitivities(True)
        model.enable_sensitivities(True, [pub[subset[0] - 1]])
        refsim.clear_events()
        model.simulate(values.copy(), times.copy())
    want = sorted(refsim.protocol_events(model.dosing_regimen()))
    runs = [sorted(e['protocol']) for e in refsim.EVENTS if e['e'] == 'Run']
    cnt['evaluations'] = cnt.get('evaluations', 0) + 1
    if not want or runs != [want]:
        fail('Solution', 'doses_not_in_the_solved_system_after_a_second_sensitivity_request', dict(solved_with=runs, reported=want))
