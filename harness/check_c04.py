"""C04 -- error models are documented normalised densities with exact sensitivities (module ErrorModel)."""
import json

from . import tlc, interp
from .cache import cached
from .common import MachineryError
from .verdict import Verdict, pmap

PROP = 'C04'
ASSUME = [
    'documented densities typed from the class docstrings into harness/interp.py; each integrates to one (adaptive '
    'quadrature, 1e-7) and the log-normal one has mean = model output -- checked in the self-test of the table on every run',
    'derivatives by complex step through the supplied output sensitivities (outputs linear in auxiliary mechanistic '
    'parameters with the supplied slopes), tolerance 1e-8',
    'for the Gaussian-family models with sd proportional to the output only positive outputs are in the documented domain',
]


def _compute(tier, seed):
    r = tlc.run('ErrorModel', 'ErrorModel_%s.cfg' % tier)
    from . import replay_errormodel
    reps = 3 if tier == "quick" else 400
    results = pmap(replay_errormodel.replay_case, [(rec, seed, reps) for rec in r.records])
    return dict(run=r.summary(), records=r.records, results=results)


def run(tier, seed):
    v = Verdict(PROP, tier, seed)
    problems = interp.self_test()
    if problems:
        raise MachineryError('interpretation table self-test (normalisation): %s' % problems)
    out = cached('errormodel', tier, seed, lambda: _compute(tier, seed))
    for fails, cnt in out['results']:
        v.failures(fails)
        v.merge_counters(cnt)
    recs = out['records']
    for rec in recs[:1] + recs[-1:]:
        v.sample(rec)
    nt = sum(1 for r in recs if r['defined'] and (r['n'] > 1 or r['p'] > 0))
    if nt == 0:
        v.vacuous('vacuous run')
    cov = dict(states=out['run']['states'], transitions=out['run']['transitions'], traces_validated_against_impl=len(recs),
               evaluations=v.counters.get('evaluations', 0), distinct_nontrivial=nt, exhaustive=True,
               rule='TLC enumerates kind x n x sensitivity width x sign class of every scale parameter x sign class of the '
                    'outputs; each case concretised with several seeded value sets; non-trivial = more than one observation '
                    'or a non-empty sensitivity matrix, inside the documented domain',
               normalisation='each documented density integrates to 1 (quadrature in interp.self_test)',
               tlc_runs=[out['run']])
    return v.finish('model_checking', cov, ASSUME)


def replay(path):
    from . import replay_errormodel
    rep = json.load(open(path))
    fails, _ = replay_errormodel.replay_case((rep['case']['config'], rep['seed'], 10))
    for f in fails:
        print('VIOLATION property=%s replay=%s' % (PROP, path))
        print('  clause=%s manifestation=%s detail=%s' % (f['clause'], f['manifestation'], str(f['detail'])[:400]))
        return 1
    print('replay passes')
    return 0
