"""C19 -- evaluations are pure: no hidden state, no input mutation, any process (module Purity)."""
import json

from . import tlc
from .cache import cached
from .common import MachineryError
from .verdict import Verdict, pmap

PROP = 'C19'
ASSUME = [
    'objects: LogLikelihood (plain and with fixed parameters), LogPosterior (own likelihood and a likelihood shared with '
    'the sibling object), HierarchicalLogPosterior, PopulationFilterLogPosterior, PredictiveModel -- all built from ONE set of '
    'user models (a dosed PKPD model on RefSim, two error models, data arrays)',
    'oracle: the same evaluation on a freshly built object evaluated once (rtol 1e-9); inputs compared before / after',
    'user mutations after construction: re-administration, new regimen, output selection, enabling sensitivities on the '
    "user's mechanistic model, re-fixing the ReducedErrorModel that was handed over, renaming an error-model parameter, "
    'writing into the data arrays; fix_parameters on one of the two objects (the sibling must not notice)',
    'process independence: fork workers (objects inherited by fork) and pints.ParallelEvaluator versus SequentialEvaluator',
    'purity of individual likelihood evaluations under all call histories is also model-checked in LogLik.tla (HistoryFree) '
    'and replayed by C01; mechanistic-model histories by C11',
]


def walk_worker(arg):
    from . import replay_purity, recorders, refsim
    recorders.install(replay_purity.chi)
    refsim.clear_events()
    fails, cnt = replay_purity.replay_walk(arg)
    trace = recorders.abstract_trace(refsim.EVENTS)
    refsim.clear_events()
    return fails, cnt, trace


def _compute(tier, seed):
    runs = [tlc.run('Purity', 'Purity_quick.cfg', want_records=False).summary()]
    try:
        tlc.run('Purity', 'Purity_asfound.cfg', want_records=False)
        raise MachineryError('negative control failed: as-found design not refuted')
    except tlc.SpecViolation as e:
        if e.res.violated not in ('ProtocolFollowsRegimen', 'RunIsConsistent'):
            raise MachineryError('as-found design refuted on %s' % e.res.violated)
    try:
        tlc.run('Purity', 'Purity_shallow.cfg', want_records=False)
        raise MachineryError('negative control failed: shallow copies of the error models not refuted')
    except tlc.SpecViolation as e:
        if e.res.violated != 'EMIsolation':
            raise MachineryError('shallow design refuted on %s' % e.res.violated)
    sim = tlc.simulate('Purity', 'Purity_walks.cfg', num=(40 if tier == 'quick' else 300), depth=80, seed=seed + 1)
    walks = sim.records
    from . import replay_purity, validate_traces
    P = replay_purity.PAIRS
    res = pmap(walk_worker, [(w, P[i % len(P)], seed, False) for i, w in enumerate(walks)])
    traces = [t for _, _, t in res if t]
    vres, verdicts = validate_traces.validate_mech(traces, tag='c19') if traces else (None, [])
    # forked workers / parallel evaluator: in this (non-daemonic) process, one walk per object pair
    fork_res = [replay_purity.replay_walk((walks[i], P[i % len(P)], seed, True)) for i in range(min(len(P), len(walks)))]
    return dict(runs=runs, nwalks=len(walks), results=[(f, c) for f, c, _ in res] + fork_res, verdicts=verdicts,
                nevents=sum(len(t) for t in traces), samples=[dict(pair=list(P[0]), walk=walks[0]), dict(pair=list(P[3 % len(P)]), walk=walks[3 % len(walks)])])


def run(tier, seed):
    v = Verdict(PROP, tier, seed)
    out = cached('purity', tier, seed, lambda: _compute(tier, seed))
    for fails, cnt in out['results']:
        v.failures(fails)
        v.merge_counters(cnt)
    for k, vd in enumerate(out['verdicts']):
        if vd['clause']:
            v.failure(dict(case=dict(trace='walk-%d' % k), clause='Trace:' + vd['clause'], manifestation='rejected', detail=vd,
                           features=['trace']))
    for s in out['samples']:
        v.sample(s)
    nt = v.counters.get('mutations', 0)
    if nt == 0 or v.counters.get('parallel_evaluations', 0) == 0:
        v.vacuous('vacuous run')
    cov = dict(states=sum(r['states'] for r in out['runs']), transitions=sum(r['transitions'] for r in out['runs']),
               traces_validated_against_impl=out['nwalks'] + len(out['verdicts']), evaluations=v.counters.get('evaluations', 0),
               distinct_nontrivial=sum(1 for f, c in out['results'] if c.get('mutations')), exhaustive=False,
               rule='TLC explores all interleavings of evaluations of two objects and user mutations exhaustively (depth 4 after '
                    'construction) at the level of the hidden solver state; TLC -simulate behaviours of 5 steps are replayed on 7 '
                    'pairs of real objects; non-trivial = the behaviour contains a user mutation after construction',
               walks=out['nwalks'], trace_events=out['nevents'], parallel_evaluations=v.counters.get('parallel_evaluations', 0),
               tlc_runs=out['runs'], spec_negative_control='Purity_asfound.cfg (solver rebuilt without its protocol) and Purity_shallow.cfg (error models shallow-copied) refuted by TLC', user_refixes=v.counters.get('feat_with_user_refix', 0),
               object_fixes=v.counters.get('objfix', 0))
    return v.finish('model_checking', cov, ASSUME)


def replay(path):
    from . import replay_purity
    rep = json.load(open(path))
    case = rep['case']
    if 'walk' not in case:
        return run('quick', rep['seed'])
    fails, _ = replay_purity.replay_walk((case['walk'], tuple(case['pair']), rep['seed'], True))
    for f in fails:
        print('VIOLATION property=%s replay=%s' % (PROP, path))
        print('  clause=%s manifestation=%s detail=%s' % (f['clause'], f['manifestation'], str(f['detail'])[:400]))
        return 1
    print('replay passes')
    return 0
