"""Generation of SBML files for compartment models with a chosen declaration order (C09-C11)."""
import os

import numpy as np
from scipy.linalg import expm

from .common import WORK


def sname(r):
    return 'x' + chr(ord('a') + r - 1)


def cname(k):
    return 'k' + chr(ord('a') + k - 1)


def cidx(r, nc):
    return ((r - 1) % nc) + 1


def _mathml(expr):
    """expr: nested tuples ('times', a, b), ('minus', a, b), ('neg', a), ('plus', a, b..), ('divide', a, b), str"""
    if isinstance(expr, str):
        return '<ci>%s</ci>' % expr
    op = expr[0]
    if op == 'neg':
        return '<apply><minus/>%s</apply>' % _mathml(expr[1])
    return '<apply><%s/>%s</apply>' % (op, ''.join(_mathml(e) for e in expr[1:]))


def chain_model(ns, nc, decl, cdecl, path=None, x0=None, k0=None, inter=True):
    """Linear chain by alphabetical rank: dx_1 = -k_c(1) x_1, dx_r = k_c(r-1) x_(r-1) - k_c(r) x_r.
    States are declared in the order decl (ranks), constants in the order cdecl.  An intermediate
    yq = xa / dk and a derived constant dk = sum of the constants are added (never parameters)."""
    x0 = x0 or [1.0] * ns
    k0 = k0 or [1.0] * nc
    params, rules = [], []
    entries = [('s', r) for r in decl] + [('c', k) for k in cdecl]
    # interleave states and constants to make the file order unrelated to the alphabet
    order = []
    s_it, c_it = [('s', r) for r in decl], [('c', k) for k in cdecl]
    while s_it or c_it:
        if s_it:
            order.append(s_it.pop(0))
        if c_it:
            order.append(c_it.pop(0))
    for kind, r in order:
        if kind == 's':
            params.append('<parameter id="%s" value="%r" constant="false"/>' % (sname(r), float(x0[r - 1])))
        else:
            params.append('<parameter id="%s" value="%r" constant="true"/>' % (cname(r), float(k0[r - 1])))
    if inter:
        params.append('<parameter id="yq" constant="false"/>')
        params.append('<parameter id="dk" constant="false"/>')
    for r in decl:
        out = ('times', cname(cidx(r, nc)), sname(r))
        if r == 1:
            rhs = ('neg', out)
        else:
            rhs = ('minus', ('times', cname(cidx(r - 1, nc)), sname(r - 1)), out)
        rules.append('<rateRule variable="%s"><math xmlns="http://www.w3.org/1998/Math/MathML">%s</math></rateRule>'
                     % (sname(r), _mathml(rhs)))
    dk = cname(1) if nc == 1 else ('plus',) + tuple(cname(k) for k in range(1, nc + 1))
    if inter:
        rules.append('<assignmentRule variable="yq"><math xmlns="http://www.w3.org/1998/Math/MathML">%s</math></assignmentRule>'
                     % _mathml(('divide', sname(1), 'dk')))
        rules.append('<assignmentRule variable="dk"><math xmlns="http://www.w3.org/1998/Math/MathML">%s</math></assignmentRule>'
                     % _mathml(dk))
    xml = ('<?xml version="1.0" encoding="UTF-8"?>\n'
           '<sbml xmlns="http://www.sbml.org/sbml/level3/version2/core" level="3" version="2">\n'
           '<model id="gen" name="gen">\n<listOfParameters>\n%s\n</listOfParameters>\n<listOfRules>\n%s\n</listOfRules>\n'
           '</model>\n</sbml>\n' % ('\n'.join(params), '\n'.join(rules)))
    if path is None:
        os.makedirs(os.path.join(WORK, 'sbml'), exist_ok=True)
        path = os.path.join(WORK, 'sbml', 'chain-%d-%d-%s-%s-%d-%d.xml' % (
            ns, nc, ''.join(map(str, decl)), ''.join(map(str, cdecl)), int(inter), os.getpid()))
    with open(path, 'w') as f:
        f.write(xml)
    return path


def chain_solution(ns, nc, x0, k, times, outs, depot=None):
    """Closed form (matrix exponential), for complex x0 / k too. outs: list of ranks (0 = yq).
    depot = (initial amount, absorption rate, target rank): a first-order absorption compartment feeding state `target`
    (what PKPDModel.set_administration(direct=False) adds; no dose is given)."""
    x0 = np.asarray(x0)
    k = np.asarray(k)
    n = ns + (1 if depot is not None else 0)
    A = np.zeros((n, n), dtype=complex)
    for r in range(1, ns + 1):
        A[r - 1, r - 1] = -k[cidx(r, nc) - 1]
        if r > 1:
            A[r - 1, r - 2] = k[cidx(r - 1, nc) - 1]
    if depot is not None:
        d0, ka, target = depot
        A[ns, ns] = -ka
        A[target - 1, ns] = ka
        x0 = np.concatenate([x0.astype(complex), [d0]])
    res = np.zeros((len(outs), len(times)), dtype=complex)
    for j, t in enumerate(times):
        x = expm(A * t) @ x0.astype(complex)
        for i, o in enumerate(outs):
            res[i, j] = x[0] / np.sum(k) if o == 0 else x[o - 1]
    return res


def chain_reference(ns, nc, values, times, outs, free):
    """outputs (n_out, n_times) and sensitivities (n_times, n_out, n_free) w.r.t. the published
    parameters (states by rank, then constants by rank) listed in free (1-based positions)."""
    values = np.asarray(values, dtype=float)
    out = np.real(chain_solution(ns, nc, values[:ns], values[ns:], times, outs))
    h = 1e-30
    sens = np.zeros((len(times), len(outs), len(free)))
    for q, pos in enumerate(free):
        v = values.astype(complex)
        v[pos - 1] += 1j * h
        sens[:, :, q] = (np.imag(chain_solution(ns, nc, v[:ns], v[ns:], times, outs)) / h).T
    return out, sens


def chain_reference_admin(ns, nc, values, times, outs, free, target):
    """as chain_reference for the model after set_administration(direct=False) into state `target`.
    values / free refer to the PUBLISHED vector <<dose.drug_amount, states by rank, dose.absorption_rate, constants by
    rank>> (alphabetical: 'dose.' sorts before 'global.')."""
    values = np.asarray(values, dtype=float)

    def sol(v):
        return chain_solution(ns, nc, v[1:1 + ns], v[2 + ns:], times, outs, depot=(v[0], v[1 + ns], target))
    out = np.real(sol(values.astype(complex)))
    h = 1e-30
    sens = np.zeros((len(times), len(outs), len(free)))
    for q, pos in enumerate(free):
        v = values.astype(complex)
        v[pos - 1] += 1j * h
        sens[:, :, q] = (np.imag(sol(v)) / h).T
    return out, sens
