"""spec -> code for module LogLik: every configuration TLC enumerates is built as a real
chi.LogLikelihood (ProbeMech + recording real error models) and every evaluation is compared with
what the specification predicts: the observed pairing of predictions and observations, the solve
on the union grid, the parameter slices, the value (interpretation of the term bag), the pointwise
sequence, the gradient (exact derivative of the interpretation), names and counts -- for a seeded
history of evaluation calls, because the specification says the result does not depend on history.
"""
import warnings

import numpy as np

from . import interp, probes
from .common import scribble, digest

chi = probes.chi
import pints  # noqa: E402


def treal(t):
    return 0.25 + 0.5 * np.asarray(t, dtype=float)


def features(rec):
    f = []
    if rec['tie']:
        f.append('tied_times')
    if rec['shortcut']:
        f.append('grid_equals_union')
    if len(rec['grid']) == 1:
        f.append('single_output')
    if len(set(map(tuple, rec['grid']))) < len(rec['grid']):
        f.append('identical_grids')
    return f


class HoleMech(probes.ProbeMech):
    """ProbeMech whose FIRST output (and its sensitivities) is nan at the given times -- times at which the first output is not
    measured in the configuration it is used for"""

    def __init__(self, n_parameters, n_outputs, holes, tag):
        super(HoleMech, self).__init__(n_parameters, n_outputs, tag=tag)
        self._holes = list(holes)

    def simulate(self, parameters, times):
        res = super(HoleMech, self).simulate(parameters, times)
        t = np.asarray(times, dtype=float)
        mask = np.zeros(len(t), dtype=bool)
        for h in self._holes:
            mask |= np.isclose(t, h)
        if isinstance(res, tuple):
            out, sens = res
            out = np.array(out, dtype=float)
            sens = np.array(sens, dtype=float)
            out[0, mask] = np.nan
            sens[mask, 0, :] = np.nan
            return out, sens
        out = np.array(res, dtype=float)
        out[0, mask] = np.nan
        return out


def nontrivial(rec):
    """A configuration exercises the union/selection bookkeeping if some output's grid differs
    from the union grid or contains a tie."""
    return rec['tie'] or any(list(g) != list(rec['union']) for g in rec['grid'])


def replay_case(arg):
    rec, seed = arg
    fails = []
    cnt = {}
    key = digest(rec)
    rng = np.random.default_rng([seed, int(key, 16) % (2 ** 31)])
    nout = len(rec['grid'])
    nmech = rec['nmech']
    kinds = rec['kind']
    feats = features(rec)
    times = [treal(g) for g in rec['grid']]
    obs = [np.round(rng.uniform(0.6, 3.0, size=len(g)), 3) for g in rec['grid']]
    if rec['tie'] and (int(key, 16) // 3) % 2 == 0:
        # replicate measurements (equal times within an output) with IDENTICAL readings: the observations are a sequence of
        # (time, value) pairs, not a set -- every pair is scored (LogLik!BagIsDecl)
        for g, o in zip(rec['grid'], obs):
            for a in range(len(g)):
                for b in range(a):
                    if g[a] == g[b]:
                        o[a] = o[b]
        cnt['replicates_with_identical_readings'] = 1
    tag = 'c' + key

    def fail(clause, manifestation, detail):
        fails.append(dict(case=dict(config=rec, obs=[o.tolist() for o in obs]), clause=clause,
                          manifestation=manifestation, detail=detail, features=feats))

    mech = probes.ProbeMech(nmech, nout, tag=tag + 'm')
    ems = [probes.recording_error_model(k, tag + 'e%d' % o) for o, k in enumerate(kinds)]
    t_in = [t.copy() for t in times]
    o_in = [o.copy() for o in obs]
    if nout == 1 and len(obs[0]) > 1 and rng.integers(2) == 0:
        t_arg, o_arg = t_in[0], o_in[0]            # single-output convenience form
        cnt['flat_single_output_form'] = 1
    else:
        t_arg, o_arg = t_in, o_in
    try:
        ll = chi.LogLikelihood(mech, ems if (nout > 1 or rng.integers(2)) else ems[0], o_arg, t_arg)
    except Exception as e:  # constructor rejects a configuration the specification accepts
        fail('Construct', type(e).__name__, repr(e))
        return fails, cnt
    # ---- names and counts (C17 at the individual level) ----------------------------------
    scribble(ll)
    if ll.n_parameters() != rec['nparams']:
        fail('Counts', 'n_parameters', (ll.n_parameters(), rec['nparams']))
    if list(ll.get_parameter_names()) != rec['names']:
        fail('Names', 'names', (ll.get_parameter_names(), rec['names']))
    try:
        nobs = ll.n_observations()
        if list(np.atleast_1d(nobs)) != [len(g) for g in rec['grid']]:
            fail('Counts', 'n_observations', (nobs, [len(g) for g in rec['grid']]))
    except Exception as e:
        fail('Counts', type(e).__name__, repr(e))

    theta = np.concatenate([np.round(rng.uniform(0.5, 2.0, size=nmech), 3),
                            np.round(rng.uniform(0.3, 1.2, size=rec['nparams'] - nmech), 3)])
    slices = [np.array(s) - 1 for s in rec['slices']]
    union_t = treal(rec['union'])

    def term(o, n, at, th):
        pred = probes.probe_output(o - 1, np.array([treal(at)]), th[:nmech])[0]
        return interp.ERR[kinds[o - 1]](obs[o - 1][n - 1], pred, th[slices[o - 1]])

    def ref(th):
        return sum(term(o, n, at, th) for (o, n, at) in rec['pointwise'])

    exp_total = interp.value(ref, theta)
    exp_pw = np.array([np.real(term(o, n, at, theta.astype(complex))) for (o, n, at) in rec['pointwise']])
    exp_grad = interp.grad(ref, theta)

    ops = list(rng.permutation(['call', 'pointwise', 'S1'])) + list(rng.choice(['call', 'pointwise', 'S1'], size=2))
    theta_in = theta.copy()
    for step, op in enumerate(ops):
        probes.clear(tag + 'm')
        for o in range(nout):
            probes.clear(tag + 'e%d' % o)
        try:
            with warnings.catch_warnings():
                warnings.simplefilter('error', RuntimeWarning)
                if op == 'call':
                    out = ll(theta_in)
                elif op == 'pointwise':
                    out = ll.compute_pointwise_ll(theta_in)
                else:
                    out = ll.evaluateS1(theta_in)
        except Exception as e:
            fail('Evaluable', type(e).__name__, dict(op=op, step=step, ops=ops, error=repr(e)))
            break
        cnt['evaluations'] = cnt.get('evaluations', 0) + 1
        ctx = dict(op=op, step=step, ops=ops, theta=theta.tolist())
        if not np.array_equal(theta_in, theta):
            fail('NoInputWrite', 'parameters_modified', ctx)
        # -- SolveOnce: one solve, on the union grid, with the mechanistic slice
        sims = [e for e in probes.log_of(tag + 'm') if e[0] == 'simulate']
        if len(sims) != 1:
            fail('SolveOnce', 'n_solves=%d' % len(sims), ctx)
        else:
            _, psi, tms, sflag, _ = sims[0]
            if not np.array_equal(tms, union_t):
                fail('SolveOnce', 'grid', dict(ctx, solved=tms.tolist(), union=union_t.tolist()))
            if not np.array_equal(psi, theta[:nmech]):
                fail('SlicesPartition', 'mech_slice', dict(ctx, got=psi.tolist()))
            if sflag != (op == 'S1'):
                fail('SensSwitch', 'flag', dict(ctx, flag=sflag))
        # -- observed pairing (ExactlyOnce): what each error model was handed
        evname = {'call': 'll', 'pointwise': 'pw', 'S1': 's1'}[op]
        for o in range(nout):
            evs = probes.log_of(tag + 'e%d' % o)
            if len(evs) != 1 or evs[0][0] != evname:
                fail('ExactlyOnce', 'error_model_calls', dict(ctx, output=o + 1, events=[e[0] for e in evs]))
                continue
            _, par, mo, ob = evs[0][:4]
            exp_mo = probes.probe_output(o, union_t[np.array(rec['sel'][o], dtype=int) - 1], theta[:nmech])
            if mo.shape != exp_mo.shape or not np.allclose(mo, exp_mo, rtol=1e-12, atol=0):
                fail('ExactlyOnce', 'pairing', dict(ctx, output=o + 1, got=mo.tolist(), expected=exp_mo.tolist()))
            if ob.shape != obs[o].shape or not np.array_equal(ob, obs[o]):
                if not (ob.shape == obs[o].shape and _same_within_ties(ob, obs[o], rec['grid'][o])):
                    fail('ExactlyOnce', 'observations', dict(ctx, output=o + 1, got=ob.tolist(), expected=obs[o].tolist()))
            if not np.array_equal(par, theta[slices[o]]):
                fail('SlicesPartition', 'error_slice', dict(ctx, output=o + 1, got=par.tolist(),
                                                          expected=theta[slices[o]].tolist()))
        # -- values against the interpretation of the specification's term bag
        if op == 'call':
            if not interp.close(out, exp_total):
                fail('BagIsDecl', 'value', dict(ctx, got=float(out), expected=exp_total))
        elif op == 'pointwise':
            out = np.asarray(out, dtype=float)
            if out.shape != exp_pw.shape:
                fail('PointwiseSum', 'length', dict(ctx, got=out.shape, expected=exp_pw.shape))
            else:
                if not interp.close(out, exp_pw):
                    if not interp.close(_sort_within_ties(out, rec), _sort_within_ties(exp_pw, rec)):
                        fail('PointwiseSum', 'sequence', dict(ctx, got=out.tolist(), expected=exp_pw.tolist()))
                if not interp.close(np.sum(out), exp_total):
                    fail('PointwiseSum', 'sum', dict(ctx, got=float(np.sum(out)), expected=exp_total))
        else:
            sc, g = out
            g = np.asarray(g, dtype=float)
            if not interp.close(sc, exp_total):
                fail('GradIsDecl', 'score', dict(ctx, got=float(sc), expected=exp_total))
            if g.shape != exp_grad.shape:
                fail('GradIsDecl', 'length', dict(ctx, got=g.shape, expected=exp_grad.shape))
            elif not interp.close(g, exp_grad, rtol=1e-8, atol=1e-8):
                fail('GradIsDecl', 'gradient', dict(ctx, got=g.tolist(), expected=exp_grad.tolist()))
        if fails:
            break
    # inputs not modified
    for a, b in zip(t_in + o_in, times + obs):
        if not np.array_equal(a, b):
            fail('NoInputWrite', 'data_modified', None)
    # ---- a likelihood built on a PRE-REDUCED mechanistic model of the user's (one parameter fixed): it sums the densities at
    # the value fixed when it was built, also after the user re-fixes his own wrapper
    if not fails:
        try:
            fval = round(float(rng.uniform(0.5, 1.5)), 3)
            red = chi.ReducedMechanisticModel(probes.ProbeMech(nmech + 1, nout, tag=tag + 'r'))
            red.fix_parameters({'P%d' % (nmech + 1): fval})
            ems_r = [probes.error_model(k_) for k_ in kinds]
            with warnings.catch_warnings():
                warnings.simplefilter('error', RuntimeWarning)
                ll_r = chi.LogLikelihood(red, ems_r, [o.copy() for o in obs], [t.copy() for t in times])
                v_r1 = ll_r(theta.copy())
                red.fix_parameters({'P%d' % (nmech + 1): 2.0 * fval})           # the user's later change
                v_r2 = ll_r(theta.copy())

            def ref_r(th):
                tot = 0.0
                for (o, n_, at) in rec['pointwise']:
                    pred = probes.probe_output(o - 1, np.array([treal(at)]), np.concatenate([th[:nmech], [fval]]))[0]
                    tot = tot + interp.ERR[kinds[o - 1]](obs[o - 1][n_ - 1], pred, th[slices[o - 1]])
                return tot
            e_r = interp.value(ref_r, theta)
            cnt['evaluations'] = cnt.get('evaluations', 0) + 2
            if list(ll_r.get_parameter_names()) != rec['names'] or not (interp.close(v_r1, e_r) and interp.close(v_r2, e_r)):
                fail('BagIsDecl', 'value_over_pre_reduced_model', dict(got=[float(v_r1), float(v_r2)], expected=e_r))
        except Exception as e:
            fail('Evaluable', type(e).__name__, dict(op='pre-reduced mechanistic model', error=repr(e)))
    # ---- the optional outputs= argument: the same problem stated with the outputs listed in ANOTHER order (error models,
    # observations and times listed accordingly) is the same bag of terms
    if not fails and nout >= 2:
        perm = list(np.roll(np.arange(nout), 1))
        try:
            mech_p = probes.ProbeMech(nmech, nout, tag=tag + 'p')
            ems_p = [probes.error_model(kinds[q]) for q in perm]
            with warnings.catch_warnings():
                warnings.simplefilter('error', RuntimeWarning)
                ll_p = chi.LogLikelihood(mech_p, ems_p, [obs[q].copy() for q in perm], [times[q].copy() for q in perm],
                                         outputs=['Y%d' % (q + 1) for q in perm])
                nerr = [len(s_) for s_ in slices]
                th_p = np.concatenate([theta[:nmech]] + [theta[slices[q]] for q in perm])
                v_p = ll_p(th_p.copy())
                s_p = ll_p.evaluateS1(th_p.copy())[0]
                pw_p = np.asarray(ll_p.compute_pointwise_ll(th_p.copy()), dtype=float)
            cnt['evaluations'] = cnt.get('evaluations', 0) + 3
            cnt['outputs_argument_permuted'] = 1
            if not (interp.close(v_p, exp_total) and interp.close(s_p, exp_total) and interp.close(np.sum(pw_p), exp_total)):
                fail('ExactlyOnce', 'outputs_argument_permuted', dict(got=[float(v_p), float(s_p), float(np.sum(pw_p))],
                                                                       expected=exp_total, order=perm))
        except Exception as e:
            fail('Evaluable', type(e).__name__, dict(op='outputs= permuted', error=repr(e)))
    # ---- the caller's parameter buffer refilled IN PLACE with another point: the result follows the content ----------
    if not fails:
        theta2 = np.round(theta * (1.0 + 0.1 * rng.uniform(-1, 1, size=len(theta))), 4)
        theta_in[...] = theta2
        try:
            with warnings.catch_warnings():
                warnings.simplefilter('error', RuntimeWarning)
                v2 = ll(theta_in)
                s2 = ll.evaluateS1(theta_in)[0]
            cnt['evaluations'] = cnt.get('evaluations', 0) + 2
            e2 = interp.value(ref, theta2)
            if not (interp.close(v2, e2) and interp.close(s2, e2)):
                fail('BagIsDecl', 'value_after_buffer_refill', dict(got=[float(v2), float(s2)], expected=e2))
        except Exception as e:
            fail('Evaluable', type(e).__name__, dict(op='buffer refill', error=repr(e)))
        theta_in[...] = theta
    # ---- mechanistic predictions of EITHER sign: the Gaussian and the constant-and-multiplicative densities are defined
    # wherever their standard deviation is positive (sigma_base + sigma_rel * prediction > 0 admits mildly negative
    # predictions); the bag of terms is the same bag there
    if not fails and all(k_ in ('G', 'C') for k_ in kinds):
        th_n = theta.copy()
        th_n[:nmech] = -2.5 * theta[:nmech]
        neg = False
        for o in range(nout):
            pr = probes.probe_output(o, times[o], th_n[:nmech])
            if len(pr) and np.min(pr) < 0:
                neg = True
                if kinds[o] == 'C':
                    th_n[slices[o][1]] = float(np.floor(500.0 * th_n[slices[o][0]] / -np.min(pr)) / 1000.0)  # sigma_tot >= sigma_base / 2
        if neg and np.all(th_n[nmech:] > 0):
            try:
                with warnings.catch_warnings():
                    warnings.simplefilter('error', RuntimeWarning)
                    vn = ll(th_n.copy())
                    sn, gn = ll.evaluateS1(th_n.copy())
                    pn = np.asarray(ll.compute_pointwise_ll(th_n.copy()), dtype=float)
                cnt['evaluations'] = cnt.get('evaluations', 0) + 3
                cnt['negative_predictions_inside_the_support'] = 1
                en = interp.value(ref, th_n)
                if not np.isfinite(en):
                    raise AssertionError('harness: reference not finite at a point meant to be inside the support')
                if not (interp.close(vn, en) and interp.close(sn, en) and interp.close(np.sum(pn), en)):
                    fail('BagIsDecl', 'value_at_negative_predictions', dict(got=[float(vn), float(sn), float(np.sum(pn))],
                                                                            expected=en, theta=th_n.tolist()))
                elif not interp.close(np.asarray(gn, dtype=float), interp.grad(ref, th_n), rtol=1e-8, atol=1e-8):
                    fail('GradIsDecl', 'gradient_at_negative_predictions', dict(theta=th_n.tolist()))
            except Exception as e:
                fail('Evaluable', type(e).__name__, dict(op='negative predictions', error=repr(e)))
    # ---- what the model predicts for an output at a time at which that output was NOT measured belongs to no term of the sum:
    # a model whose first output is undefined (nan) exactly at such union times scores like the well-defined one
    if not fails and nout >= 2:
        holes = [float(t_) for t_ in union_t if not np.any(np.isclose(times[0], t_))]
        if holes and len(times[0]):
            try:
                mech_h = HoleMech(nmech, nout, holes, tag=tag + 'h')
                with warnings.catch_warnings():
                    warnings.simplefilter('ignore')
                    ll_h = chi.LogLikelihood(mech_h, [probes.error_model(k_) for k_ in kinds], [o.copy() for o in obs],
                                             [t.copy() for t in times])
                    vh = float(ll_h(theta.copy()))
                    sh = float(ll_h.evaluateS1(theta.copy())[0])
                    ph = float(np.sum(ll_h.compute_pointwise_ll(theta.copy())))
                cnt['evaluations'] = cnt.get('evaluations', 0) + 3
                cnt['undefined_prediction_at_an_unmeasured_pair'] = 1
                if not (interp.close(vh, exp_total) and interp.close(sh, exp_total) and interp.close(ph, exp_total)):
                    fail('ExactlyOnce', 'prediction_at_an_unmeasured_pair_matters', dict(got=[vh, sh, ph], expected=exp_total,
                                                                                         undefined_at=holes))
            except Exception as e:
                fail('Evaluable', type(e).__name__, dict(op='undefined prediction at an unmeasured pair', error=repr(e)))
    # ---- ONE error-model object listed for every output (callers write [em] * n): every output still has its own noise
    # parameters -- names per output, the bag of terms with each output's own values, and fixing one output's noise parameter
    # leaves the other outputs' free
    if not fails and nout >= 2 and all(n_.startswith('Y1 ') for n_ in np.array(rec['names'])[slices[0]]):
        try:
            k0 = kinds[0]
            ne = len(slices[0])
            base = [rec['names'][q][3:] for q in slices[0]]
            names_x = rec['names'][:nmech] + ['Y%d %s' % (o + 1, b_) for o in range(nout) for b_ in base]
            sl_s = [nmech + o * ne + np.arange(ne) for o in range(nout)]
            th_s = np.concatenate([theta[:nmech]] + [np.round(theta[slices[0]] * (1.0 + 0.25 * o), 4) for o in range(nout)])

            def ref_s(th):
                tot = 0.0
                for (o, n_, at) in rec['pointwise']:
                    pred = probes.probe_output(o - 1, np.array([treal(at)]), th[:nmech])[0]
                    tot = tot + interp.ERR[k0](obs[o - 1][n_ - 1], pred, th[sl_s[o - 1]])
                return tot
            e_s = interp.value(ref_s, th_s)
            with warnings.catch_warnings():
                warnings.simplefilter('error', RuntimeWarning)
                ll_s = chi.LogLikelihood(probes.ProbeMech(nmech, nout, tag=tag + 's'), [probes.error_model(k0)] * nout,
                                         [o.copy() for o in obs], [t.copy() for t in times])
                names_s = list(ll_s.get_parameter_names())
                v_s = ll_s(th_s.copy()) if len(names_s) == len(th_s) else np.nan
                ll_s.fix_parameters({names_x[-1]: float(th_s[-1])})
                n_s = ll_s.n_parameters()
                v_s2 = ll_s(th_s[:-1].copy()) if n_s == len(th_s) - 1 else np.nan
            cnt['evaluations'] = cnt.get('evaluations', 0) + 2
            cnt['one_error_model_object_for_several_outputs'] = 1
            if names_s != names_x or n_s != len(th_s) - 1 or not (interp.close(v_s, e_s) and interp.close(v_s2, e_s)):
                fail('BagIsDecl', 'one_error_model_object_for_several_outputs',
                     dict(names=names_s, expected_names=names_x, n_after_fixing_one=int(n_s), got=[float(v_s), float(v_s2)],
                          expected=e_s))
        except Exception as e:
            fail('Evaluable', type(e).__name__, dict(op='one error-model object for several outputs', error=repr(e)))
    # ---- the same sums with one error-model parameter fixed at the likelihood (each in turn), then released ----------
    if not fails:
        for k_ in range(nmech, rec['nparams']):
            free = [q for q in range(rec['nparams']) if q != k_]
            try:
                with warnings.catch_warnings():
                    warnings.simplefilter('error', RuntimeWarning)
                    ll.fix_parameters({rec['names'][k_]: float(theta[k_])})
                    nm = list(ll.get_parameter_names())
                    v_f = ll(theta[free].copy())
                    pw_f = np.asarray(ll.compute_pointwise_ll(theta[free].copy()), dtype=float)
                    s_f, g_f = ll.evaluateS1(theta[free].copy())
                    ll.fix_parameters({rec['names'][k_]: None})
                    v_r = ll(theta.copy())
            except Exception as e:
                fail('Evaluable', type(e).__name__, dict(op='fixed ' + rec['names'][k_], error=repr(e)))
                break
            cnt['evaluations'] = cnt.get('evaluations', 0) + 4
            ctx = dict(fixed=rec['names'][k_], theta=theta.tolist())
            if nm != [rec['names'][q] for q in free]:
                fail('Names', 'names_with_fixed', dict(ctx, got=nm))
            if not interp.close(v_f, exp_total) or not interp.close(s_f, exp_total) or not interp.close(v_r, exp_total):
                fail('BagIsDecl', 'value_with_fixed', dict(ctx, got=[float(v_f), float(s_f), float(v_r)], expected=exp_total))
            if pw_f.shape != exp_pw.shape or not interp.close(_sort_within_ties(pw_f, rec), _sort_within_ties(exp_pw, rec)) \
                    or not interp.close(np.sum(pw_f), v_f):
                fail('PointwiseSum', 'with_fixed', dict(ctx, got=pw_f.tolist(), expected=exp_pw.tolist(), total=float(v_f)))
            g_f = np.asarray(g_f, dtype=float)
            if g_f.shape != (len(free),) or not interp.close(g_f, exp_grad[free], rtol=1e-8, atol=1e-8):
                fail('GradIsDecl', 'gradient_with_fixed', dict(ctx, got=g_f.tolist(), expected=exp_grad[free].tolist()))
    # ---- outside the support (C03, last sentence): plain evaluation and evaluation with sensitivities agree on
    # finiteness; every error-model parameter in turn (and one mechanistic parameter) is set to zero / a negative number
    if not fails:
        for k_ in list(range(nmech, rec['nparams'])) + [int(rng.integers(nmech))]:
            for bad in (0.0, -0.4):
                tb = theta.copy()
                tb[k_] = bad
                try:
                    with warnings.catch_warnings():
                        warnings.simplefilter('ignore')
                        vb = float(ll(tb.copy()))
                        sb = float(ll.evaluateS1(tb.copy())[0])
                except Exception as e:
                    fail('FiniteAgree', type(e).__name__, dict(slot=rec['names'][k_], value=bad, error=repr(e)))
                    continue
                cnt['out_of_support_points'] = cnt.get('out_of_support_points', 0) + 1
                if not np.isfinite(vb):
                    cnt['non_finite_points'] = cnt.get('non_finite_points', 0) + 1
                if np.isfinite(vb) != np.isfinite(sb) or (np.isfinite(vb) and not interp.close(vb, sb)):
                    fail('FiniteAgree', 'call_vs_S1', dict(slot=rec['names'][k_], value=bad, call=vb, S1=sb, theta=tb.tolist()))
    # ---- posterior = likelihood + prior (C01 observe_at: LogPosterior) --------------------
    if not fails and (int(key, 16) + seed) % 3 == 0:
        try:
            prior = pints.ComposedLogPrior(*[pints.GaussianLogPrior(1.0 + 0.1 * k, 0.7 + 0.05 * k)
                                             for k in range(rec['nparams'])])
            lp = chi.LogPosterior(ll, prior)
            with warnings.catch_warnings():
                warnings.simplefilter('error', RuntimeWarning)
                v = lp(theta_in)
                v1, g1 = lp.evaluateS1(theta_in)
            pv = sum(interp.gauss(theta[k], 1.0 + 0.1 * k, 0.7 + 0.05 * k) for k in range(rec['nparams']))
            pg = np.array([-(theta[k] - (1.0 + 0.1 * k)) / (0.7 + 0.05 * k) ** 2 for k in range(rec['nparams'])])
            if not interp.close(v, exp_total + pv) or not interp.close(v1, exp_total + pv):
                fail('Posterior', 'value', dict(got=[float(v), float(v1)], expected=exp_total + pv))
            if not interp.close(np.asarray(g1, dtype=float), exp_grad + pg, rtol=1e-8, atol=1e-8):
                fail('Posterior', 'gradient', dict(got=np.asarray(g1).tolist(), expected=(exp_grad + pg).tolist()))
            cnt['posteriors'] = 1
        except Exception as e:
            fail('Posterior', type(e).__name__, repr(e))
    cnt['cases'] = 1
    if nontrivial(rec):
        cnt['nontrivial'] = 1
    if rec['tie']:
        cnt['with_ties'] = 1
    return fails, cnt


def _tie_groups(grid):
    groups, start = [], 0
    for i in range(1, len(grid) + 1):
        if i == len(grid) or grid[i] != grid[start]:
            groups.append((start, i))
            start = i
    return groups


def _same_within_ties(a, b, grid):
    return all(sorted(a[s:e]) == sorted(b[s:e]) for s, e in _tie_groups(grid))


def _sort_within_ties(v, rec):
    out = np.array(v, dtype=float).copy()
    off = 0
    for g in rec['grid']:
        for s, e in _tie_groups(g):
            out[off + s:off + e] = np.sort(out[off + s:off + e])
        off += len(g)
    return out


def long_series_checks(seed):
    """The sum over MANY measurements (beyond the bound of the enumeration): 400 observations per output, error scales large
    and small -- the total is the sum of the per-measurement log-densities (no intermediate product of the scales), and the
    pointwise values add up to it."""
    fails = []
    n = 0
    rng = np.random.default_rng([seed, 4001])
    t = np.sort(np.round(rng.uniform(0.1, 5.0, size=400), 2))           # (ties among them)
    for kind in ('G', 'M', 'C', 'L'):
        for scale in (1.0, 20.0, 1e-3):
            mech = probes.ProbeMech(2, 1, tag='long%s%g' % (kind, scale))
            psi = np.array([1.3, 0.8])
            pred = probes.probe_output(0, t, psi)
            npar = 2 if kind == 'C' else 1
            err = np.array([0.4, 0.3][:npar]) * scale
            obs = np.round(pred * (1.0 + 0.1 * rng.uniform(-1, 1, size=len(t))), 4)
            theta = np.concatenate([psi, err])

            def ref(th):
                pr = probes.probe_output(0, t, th[:2])
                return sum(interp.ERR[kind](obs[j], pr[j], th[2:]) for j in range(len(t)))
            try:
                with warnings.catch_warnings():
                    warnings.simplefilter('ignore')
                    ll = chi.LogLikelihood(mech, probes.error_model(kind), obs.copy(), t.copy())
                    v = float(ll(theta.copy()))
                    s1 = float(ll.evaluateS1(theta.copy())[0])
                    pw = np.asarray(ll.compute_pointwise_ll(theta.copy()), dtype=float)
                n += 3
                ev = interp.value(ref, theta)
                case = dict(config=dict(long_series=kind, scale=scale))
                if not (np.isfinite(ev) and interp.close(v, ev) and interp.close(s1, ev)):
                    fails.append(dict(case=case, clause='BagIsDecl', manifestation='value_of_a_long_series',
                                      detail=dict(got=[v, s1], expected=ev, n=len(t)), features=['long_series', 'kind_' + kind]))
                elif pw.shape != (len(t),) or not interp.close(float(np.sum(pw)), ev):
                    fails.append(dict(case=case, clause='PointwiseSum', manifestation='sum_of_a_long_series',
                                      detail=dict(got=float(np.sum(pw)), expected=ev), features=['long_series', 'kind_' + kind]))
            except Exception as e:
                fails.append(dict(case=dict(config=dict(long_series=kind, scale=scale)), clause='Evaluable',
                                  manifestation=type(e).__name__, detail=repr(e), features=['long_series']))
    return fails, {'long_series_evaluations': n}
