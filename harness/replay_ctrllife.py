"""spec -> code for module CtrlLife (C17 / C14 / C08, controller life cycle): every history of public
configuration calls TLC exports is applied to a real chi.ProblemModellingController (closed-form
mechanistic model, Gaussian error model, data frames with 1-3 individuals).  After EVERY call the
reported names and counts must equal the specification's and a prior is held iff the specification
says so; at the end the posterior is requested: it must be available exactly when the specification
says so, its names must be the specification's, and the prior it holds must have been set for
exactly the current parameter names (PriorAgrees), dimension by dimension."""
import warnings

import numpy as np
import pandas as pd

from . import probes, ctrl_recorder
from .common import digest, scribble

chi = probes.chi
import pints  # noqa: E402


def real_name(x):
    kind, b, i = x
    if kind == 'ind':
        return b
    if kind == 'ID':
        return 'ID %d %s' % (i, b)
    return '%s %s' % (kind, b)


def frame(n):
    rows = []
    for i in range(n):
        for t, y in zip([0.5, 1.0, 2.0], [1.2 + 0.1 * i, 2.0 - 0.05 * i, 1.7]):
            rows.append(dict(ID=i + 1, Time=t, Observable='A', Value=y))
    return pd.DataFrame(rows)


def pop_model(kinds):
    subs = [{'P': chi.PooledModel, 'LN': chi.LogNormalModel, 'H': chi.HeterogeneousModel}[k]() for k in kinds]
    return subs[0] if len(subs) == 1 and kinds[0] != 'P' else chi.ComposedPopulationModel(subs)


def replay_case(arg):
    """returns (failures, counters, recorded controller events -- for Trace_CtrlLife)"""
    fails, cnt = _replay_case(arg)
    return fails, cnt, ctrl_recorder.take()


def _replay_case(arg):
    rec, seed = arg
    fails, cnt = [], {'cases': 1}
    hist = rec['hist']
    ops = [h['op'] for h in hist]
    feats = []
    if 'setdata' in ops and 'setprior' in ops and ops.index('setprior') < len(ops) - 1 - ops[::-1].index('setdata'):
        feats.append('data_set_after_prior')
    if any(k == 'H' for h in hist if h['op'] == 'setpop' for k in h['a']):
        feats.append('has_H')
    if 'fix' in ops:
        feats.append('with_fix')
    for f in feats:
        cnt['feat_' + f] = 1

    def fail(clause, manifestation, detail):
        fails.append(dict(case=dict(config=rec), clause=clause, manifestation=manifestation, detail=detail, features=feats))
    ctrl_recorder.install(chi)
    ctrl_recorder.take()
    try:
        with warnings.catch_warnings():
            warnings.simplefilter('ignore')
            mech = probes.ProbeMech(2, 1, tag='life' + digest(rec))
            c = chi.ProblemModellingController(mech, [chi.GaussianErrorModel()])
            prior_names = None
            for k, h in enumerate(hist):
                op, a = h['op'], h['a']
                if op == 'setpop':
                    c.set_population_model(pop_model(a))
                elif op == 'setdata':
                    c.set_data(frame(a), output_observable_dict={'Y1': 'A'})
                elif op == 'fix':
                    c.fix_parameters({real_name(a): 0.7})
                elif op == 'release':
                    c.fix_parameters({real_name(a): None})
                elif op == 'fixforeign':
                    c.fix_parameters({'no such parameter': 1.0})
                else:
                    names = c.get_parameter_names()
                    c.set_log_prior(pints.ComposedLogPrior(*[pints.GaussianLogPrior(10.0 + j, 1.0) for j in range(len(names))])
                                    if len(names) > 1 else pints.GaussianLogPrior(10.0, 1.0))
                    prior_names = list(names)
                cnt['calls'] = cnt.get('calls', 0) + 1
                scribble(c)
                exp = [real_name(x) for x in h['names']]
                got = list(c.get_parameter_names())
                if got != exp or c.get_n_parameters() != len(exp):
                    fail('Agree', 'names_after_call', dict(step=k, op=op, got=got, n=c.get_n_parameters(), expected=exp))
                    return fails, cnt
                pm = c.get_predictive_model()
                if list(pm.get_parameter_names()) != exp or pm.n_parameters() != len(exp):
                    fail('Agree', 'predictive_model_names', dict(step=k, op=op, got=pm.get_parameter_names(), expected=exp))
                    return fails, cnt
                held = c.get_log_prior() is not None
                if held != h['prior']:
                    fail('PriorAgrees', 'prior_held' if held else 'prior_dropped',
                         dict(step=k, op=op, held=held, expected=h['prior'], set_for=prior_names, names_now=got))
                    return fails, cnt
                if held and prior_names != got:
                    fail('PriorAgrees', 'prior_for_other_parameters', dict(step=k, op=op, set_for=prior_names, names_now=got))
                    return fails, cnt
            # ---- the posterior --------------------------------------------------------------------------
            try:
                post = c.get_log_posterior()
                avail = True
            except ValueError:
                avail = False
            if avail != rec['available']:
                fail('Available', 'posterior_' + ('built' if avail else 'refused'), dict(expected=rec['available']))
                return fails, cnt
            if avail:
                exp = [real_name(x) for x in rec['names']]
                nb = rec['nbottom']
                pn = list(post.get_parameter_names())
                if pn[nb:] != exp or post.n_parameters() != nb + len(exp):
                    fail('Agree', 'posterior_names', dict(got=pn, expected_top=exp, nbottom=nb))
                x = np.full(post.n_parameters(), 0.8)
                v = post(x)
                s, g = post.evaluateS1(x)
                cnt['evaluations'] = 2
                ll = post.get_log_likelihood()(x)
                lp = sum(-0.5 * np.log(2 * np.pi) - 0.5 * (0.8 - (10.0 + j)) ** 2 for j in range(len(exp)))
                if np.asarray(g).shape != (post.n_parameters(),) or not np.isclose(v, ll + lp, rtol=1e-10) or not np.isclose(s, v, rtol=1e-10):
                    fail('Agree', 'posterior_value', dict(value=float(v), loglik=float(ll), logprior=float(lp)))
    except Exception as e:
        fail('Evaluable', type(e).__name__, dict(error=repr(e), hist=[(h['op'], h['a']) for h in hist]))
    return fails, cnt
