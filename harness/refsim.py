"""RefSim -- the environment model of the ODE solver.

sundials is absent in this sandbox, so ``myokit.Simulation`` cannot be constructed.  RefSim
implements the calls chi makes on it -- constructor ``(model, protocol=None, sensitivities=None)``,
``reset``, ``set_state``, ``set_constant``, ``set_protocol``, ``run(duration, log, log_times)`` and the
``_model`` attribute -- in pure Python: a right-hand side is generated from the myokit model
(``NumPyExpressionWriter``), integrated piecewise between the events of myokit's own
``PacingSystem`` with scipy's LSODA (rtol 1e-10), and the forward sensitivity system is solved with
complex-step directional derivatives for exactly the (outputs, parameters) it was asked for, in the
order it was asked.  RefSim honours requests, it does not repair them.

Every call is recorded as an event in ``EVENTS`` (NewSim / SetProtocol / Reset / SetState /
SetConstant / Run), which is what the trace specifications of C09-C11 and C19 are validated against.

``install()`` swaps the class onto ``myokit.Simulation`` (chi looks it up at call time).
"""
import itertools

import numpy as np
import myokit
from myokit.formats.python import NumPyExpressionWriter
from scipy.integrate import solve_ivp

EVENTS = []          # global event log (list of dicts), consumed by the trace validators
RECORD = [True]
_sid = itertools.count(1)
H = 1e-30
RTOL, ATOL = 1e-10, 1e-12
_ORIGINAL = [None]


def emit(ev, **kw):
    if RECORD[0]:
        kw['e'] = ev
        EVENTS.append(kw)


def clear_events():
    del EVENTS[:]


def protocol_events(protocol):
    """Canonical, hashable description of a myokit.Protocol (None -> ())."""
    if protocol is None:
        return ()
    out = []
    for e in protocol.events():
        out.append((float(e.level()), float(e.start()), float(e.duration()), float(e.period()),
                    int(e.multiplier())))
    return tuple(sorted(out))


def struct_of_model(model):
    """which administration surgery the model carries: none / direct / indirect"""
    has_dose = any(v.qname() == 'dose.drug_amount' for v in model.states())
    pace = any(v.binding() == 'pace' for v in model.variables(deep=True))
    return 'indirect' if has_dose else ('direct' if pace else 'none')


class _Compiled(object):
    """Python right-hand side generated from a myokit model."""

    def __init__(self, model):
        self.states = [v.qname() for v in model.states()]
        self.sidx = {n: i for i, n in enumerate(self.states)}
        self.literals = {}
        time_var = pace_var = None
        inter = []
        for v in model.variables(deep=True):
            if v.is_state():
                continue
            b = v.binding()
            if b == 'time':
                time_var = v.qname()
                continue
            if b == 'pace':
                pace_var = v.qname()
                continue
            if v.is_literal():
                self.literals[v.qname()] = float(v.rhs().eval())
            else:
                inter.append(v)
        self.time_var, self.pace_var = time_var, pace_var
        # topological order of the non-literal, non-state variables
        names = {v.qname() for v in inter}
        deps = {v.qname(): {r.var().qname() for r in v.rhs().references() if isinstance(r, myokit.Name)} & names
                for v in inter}
        order, done = [], set()
        byname = {v.qname(): v for v in inter}
        while len(order) < len(inter):
            progressed = False
            for n in sorted(names - done):
                if deps[n] <= done:
                    order.append(byname[n])
                    done.add(n)
                    progressed = True
            if not progressed:
                raise ValueError('cyclic dependencies in model')
        self.inter = [v.qname() for v in order]
        w = NumPyExpressionWriter()

        def lhs(e):
            if isinstance(e, myokit.Derivative):
                return 'D[%d]' % self.sidx[e.var().qname()]
            q = e.var().qname()
            if q in self.sidx:
                return 'y[%d]' % self.sidx[q]
            if q == time_var:
                return 't'
            if q == pace_var:
                return 'pace'
            if q in self.literals:
                return 'c[%r]' % q
            return 'v_%d' % self.inter.index(q)
        w.set_lhs_function(lhs)
        lines = ['def rhs(t, y, c, pace, want=None):', '    D = [0.0] * %d' % len(self.states)]
        for i, v in enumerate(order):
            lines.append('    v_%d = %s' % (i, w.ex(v.rhs())))
        for s in model.states():
            lines.append('    D[%d] = %s' % (self.sidx[s.qname()], w.ex(s.rhs())))
        lines.append('    if want is None:')
        lines.append('        return D')
        lines.append('    out = []')
        lines.append('    for q in want:')
        lines.append('        if q[0] == "s":')
        lines.append('            out.append(y[q[1]])')
        lines.append('        else:')
        lines.append('            out.append((%s)[q[1]])' % ('[' + ', '.join('v_%d' % i for i in range(len(order))) + ']'))
        lines.append('    return out')
        src = '\n'.join(lines)
        ns = {'numpy': np}
        exec(compile(src, '<refsim-rhs>', 'exec'), ns)
        self.rhs = ns['rhs']
        self.source = src
        try:
            self.default_state = [float(x) for x in model.initial_values(as_floats=True)]
        except Exception:
            self.default_state = [float(x) for x in model.state()]

    def locate(self, qname):
        if qname in self.sidx:
            return ('s', self.sidx[qname])
        if qname in self.inter:
            return ('v', self.inter.index(qname))
        raise KeyError(qname)


class RefSim(object):
    def __init__(self, model, protocol=None, sensitivities=None, path=None):
        model.validate()
        self._model = model.clone()
        self._c = _Compiled(self._model)
        self._sid = next(_sid)
        self._protocol = protocol.clone() if protocol is not None else None
        self._consts = dict(self._c.literals)
        self._default_state = list(self._c.default_state)
        self._state = list(self._default_state)
        self._time = 0.0
        self._sens = None
        if sensitivities is not None:
            outs, pars = sensitivities
            outs, pars = [str(o) for o in outs], [str(p) for p in pars]
            spec = []
            for p in pars:
                if p.startswith('init(') and p.endswith(')'):
                    spec.append(('init', self._c.sidx[p[5:-1]]))
                else:
                    if p not in self._c.literals:
                        raise ValueError('Sensitivity with respect to <%s> cannot be computed: not a literal constant.' % p)
                    spec.append(('const', p))
            self._sens = (outs, spec, pars)
            for o in outs:
                self._c.locate(o)
        # forward state sensitivities (myokit: _s_state / _s_default_state): they PERSIST from one run to the next, as the
        # state does; reset() restores the defaults, set_state() and set_time() do not touch them
        self._s_default = self._default_s_state()
        self._s_state = [list(r) for r in self._s_default] if self._s_default is not None else None
        emit('NewSim', sid=self._sid, states=list(self._c.states), pace_bound=self._c.pace_var is not None,
             sens_outputs=(list(self._sens[0]) if self._sens else None),
             sens_params=(list(self._sens[2]) if self._sens else None),
             protocol=protocol_events(self._protocol), fingerprint=hash(self._model.code()) % (10 ** 9),
             struct=struct_of_model(self._model))

    def _default_s_state(self):
        if self._sens is None:
            return None
        rows = []
        for kind, ref in self._sens[1]:
            row = [0.0] * len(self._c.states)
            if kind == 'init':
                row[ref] = 1.0
            rows.append(row)
        return rows

    def __deepcopy__(self, memo):
        """A deep copy is a new solver object holding the same protocol (as pickling a myokit.Simulation)."""
        new = RefSim.__new__(RefSim)
        new._model = self._model.clone()
        new._c = self._c
        new._sid = next(_sid)
        new._protocol = self._protocol.clone() if self._protocol is not None else None
        new._consts = dict(self._consts)
        new._default_state = list(self._default_state)
        new._state = list(self._state)
        new._time = self._time
        new._sens = self._sens
        new._s_default = [list(r) for r in self._s_default] if self._s_default is not None else None
        new._s_state = [list(r) for r in self._s_state] if self._s_state is not None else None
        memo[id(self)] = new
        emit('NewSim', sid=new._sid, states=list(new._c.states), pace_bound=new._c.pace_var is not None,
             sens_outputs=(list(new._sens[0]) if new._sens else None),
             sens_params=(list(new._sens[2]) if new._sens else None),
             protocol=protocol_events(new._protocol), fingerprint=0, struct=struct_of_model(new._model),
             deepcopy_of=self._sid)
        return new

    # ---- the calls chi makes ------------------------------------------------------------
    def reset(self):
        self._time = 0.0
        self._state = list(self._default_state)
        if self._s_default is not None:
            self._s_state = [list(r) for r in self._s_default]
        emit('Reset', sid=self._sid)

    def set_time(self, time=0):
        self._time = float(time)
        emit('SetTime', sid=self._sid, time=float(time))

    def set_state(self, state):
        state = [float(x) for x in state]
        if len(state) != len(self._c.states):
            raise ValueError('Wrong size state vector')
        self._state = state
        emit('SetState', sid=self._sid, values=list(state))

    def set_constant(self, var, value):
        if isinstance(var, myokit.Variable):
            var = var.qname()
        if var not in self._consts:
            raise ValueError('The given variable <%s> is not a literal constant.' % var)
        self._consts[var] = float(value)
        emit('SetConstant', sid=self._sid, name=var, value=float(value))

    def set_protocol(self, protocol=None, label='pace'):
        self._protocol = protocol.clone() if protocol is not None else None
        emit('SetProtocol', sid=self._sid, protocol=protocol_events(self._protocol))

    def state(self):
        return list(self._state)

    def time(self):
        return self._time

    # ---- integration ----------------------------------------------------------------------
    def run(self, duration, log=None, log_times=None, **kw):
        names = [str(n) for n in (log if log is not None else self._c.states)]
        t0 = self._time
        t_end = t0 + float(duration)
        lt = np.array(log_times if log_times is not None else [], dtype=float)
        emit('Run', sid=self._sid, t_end=float(t_end), log=list(names), log_times=lt.tolist(),
             protocol=protocol_events(self._protocol), state=list(self._state), consts=dict(self._consts),
             sens=self._sens is not None)
        if not (np.all(np.isfinite(self._state)) and np.all(np.isfinite(list(self._consts.values())))):
            # CVODES fails on non-finite input; chi relies on that (it maps the error to a score of -inf)
            raise myokit.SimulationError('RefSim: non-finite state or constant')
        if np.any(lt[1:] < lt[:-1]):
            raise ValueError('Values in log_times must be non-decreasing.')
        names = list(dict.fromkeys(names))      # a DataLog is keyed by name
        want = [self._c.locate(n) for n in names]
        ns = len(self._c.states)
        c = self._consts
        rhs = self._c.rhs
        sens = self._sens
        npar = len(sens[1]) if sens else 0
        y = np.array(self._state, dtype=float)
        if sens:
            S = np.array(self._s_state, dtype=float).reshape(npar, ns)       # (where the previous run left them)
            y = np.concatenate([y, S.flatten()])
            dc = []
            for kind, ref in sens[1]:
                cc = {k_: complex(v) for k_, v in c.items()}
                if kind == 'const':
                    cc[ref] = cc[ref] + 1j * H
                dc.append(cc)

        def f(t, z, pace):
            x = z[:ns]
            out = np.empty_like(z)
            out[:ns] = rhs(t, x, c, pace)
            if sens:
                for k in range(npar):
                    s = z[ns + k * ns: ns + (k + 1) * ns]
                    d = rhs(t, x + 1j * H * s, dc[k], pace)
                    out[ns + k * ns: ns + (k + 1) * ns] = np.imag(np.array(d, dtype=complex)) / H
            return out

        def observe(t, z, pace):
            x = z[:ns]
            vals = [float(np.real(v)) for v in rhs(t, x, c, pace, want)]
            if not sens:
                return vals, None
            swant = [self._c.locate(o) for o in sens[0]]
            mat = np.zeros((len(swant), npar))
            for k in range(npar):
                s = z[ns + k * ns: ns + (k + 1) * ns]
                d = rhs(t, x + 1j * H * s, dc[k], pace, swant)
                mat[:, k] = np.imag(np.array(d, dtype=complex)) / H
            return vals, mat

        pacing = myokit.PacingSystem(self._protocol, initial_time=t0) if self._protocol is not None else None
        logs = {n: [] for n in names}
        slog = []
        t = t0
        idx = 0
        nlt = len(lt)
        # log points before the start are not produced by myokit either
        while idx < nlt and lt[idx] < t0:
            idx += 1
        while True:
            pace = pacing.pace() if pacing is not None else 0.0
            nxt = min(pacing.next_time(), t_end) if pacing is not None else t_end
            # log times in [t, nxt) are evaluated with the current pace level
            pts = []
            while idx < nlt and lt[idx] < nxt and lt[idx] < t_end:
                pts.append(lt[idx])
                idx += 1
            if nxt > t:
                teval = sorted(set([p for p in pts if p > t]))
                sol = solve_ivp(lambda tt, zz: f(tt, zz, pace), (t, nxt), y, method='LSODA', rtol=RTOL, atol=ATOL,
                                t_eval=teval + ([nxt] if (not teval or teval[-1] < nxt) else []))
                if not sol.success:
                    raise myokit.SimulationError('RefSim: integration failed: %s' % sol.message)
                cols = {float(tt): sol.y[:, j] for j, tt in enumerate(sol.t)}
                for p in pts:
                    z = y if p <= t else cols[float(p)]
                    vals, mat = observe(p, z, pace)
                    for n, v_ in zip(names, vals):
                        logs[n].append(v_)
                    if sens:
                        slog.append(mat)
                y = sol.y[:, -1]
                t = nxt
            else:
                for p in pts:
                    vals, mat = observe(p, y, pace)
                    for n, v_ in zip(names, vals):
                        logs[n].append(v_)
                    if sens:
                        slog.append(mat)
            if t >= t_end:
                break
            if pacing is not None:
                pacing.advance(t)
        self._time = t_end
        self._state = [float(v) for v in y[:ns]]
        if sens:
            self._s_state = [[float(np.real(v)) for v in y[ns + k * ns: ns + (k + 1) * ns]] for k in range(npar)]
        out = {n: np.array(v) for n, v in logs.items()}
        if not all(np.all(np.isfinite(v)) for v in out.values()):
            raise myokit.SimulationError('RefSim: non-finite solution')
        if sens:
            return out, slog
        return out


def install():
    """Swap RefSim onto myokit.Simulation (idempotent)."""
    if _ORIGINAL[0] is None:
        _ORIGINAL[0] = myokit.Simulation
    myokit.Simulation = RefSim


def uninstall():
    if _ORIGINAL[0] is not None:
        myokit.Simulation = _ORIGINAL[0]
