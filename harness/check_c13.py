"""C13 -- filter posterior = prior + population + noise + filter terms; exact gradient (module FilterPosterior)."""
import json

from . import tlc, interp
from .cache import cached
from .common import MachineryError
from .verdict import Verdict, pmap

PROP = 'C13'
ASSUME = [
    'ProbeMech stands for the mechanistic model; population models, filters and prior are the real classes; the documented '
    'value is prior + population density of the simulated individuals + standard-normal density of the noise realisations + '
    'filter log-likelihood of output + sigma*eps (or output * exp(sigma*eps)) at the sorted times',
    'the value is compared up to ONE constant per configuration (difference equal over three parameter vectors, 1e-9 relative '
    'to the magnitude of the score); the gradient is compared exactly (complex step, 1e-6)',
    'filters: Gaussian / Gaussian KDE for additive noise, Gaussian / log-normal for log-scale noise; at least 2 simulated '
    'individuals (filters need a variance)',
]


def _compute(tier, seed):
    r = tlc.run('FilterPosterior', 'FilterPosterior_%s.cfg' % tier)
    try:
        tlc.run('FilterPosterior', 'FilterPosterior_asfound.cfg', want_records=False)
        raise MachineryError('negative control failed: as-found shortcuts not refuted')
    except tlc.SpecViolation as e:
        if e.res.violated not in ('FP_ScatterOK', 'FP_GatherOK'):
            raise MachineryError('as-found variant refuted on %s' % e.res.violated)
    from . import replay_filterposterior
    recs = r.records
    if tier == 'quick':
        # two observables (single sub-models, no covariates): the (output, time) axes of the chain rule through the
        # mechanistic model only differ from each other with >= 2 observables and >= 2 times
        r2 = tlc.run('FilterPosterior', 'FilterPosterior_quick2.cfg')
        seen = {json.dumps(x, sort_keys=True) for x in recs}
        recs = recs + [x for x in r2.records if json.dumps(x, sort_keys=True) not in seen]
    if tier == 'thorough':
        recs = [x for i, x in enumerate(recs) if len(x['subs']) < 3 or i % 5 == seed % 5]
    results = pmap(replay_filterposterior.replay_case, [(rec, seed) for rec in recs])
    return dict(run=r.summary(), n=len(recs), results=results,
                samples=[{k: recs[i][k] for k in ('subs', 'nsamples', 'nobs', 'ntimes', 'sigmafree', 'layout', 'names', 'ids')}
                         for i in (len(recs) // 3, len(recs) - 1)])


def run(tier, seed):
    v = Verdict(PROP, tier, seed)
    problems = interp.self_test()
    if problems:
        raise MachineryError('interpretation table self-test: %s' % problems)
    out = cached('filterposterior', tier, seed, lambda: _compute(tier, seed))
    for fails, cnt in out['results']:
        v.failures([f for f in fails if f['clause'] != 'IO_ExactlyOnce'])      # (the chain-formatting clause is C18's)
        v.merge_counters(cnt)
    for s in out['samples']:
        v.sample(s)
    nt = v.counters.get('feat_has_P', 0) + v.counters.get('feat_has_H', 0)
    if nt == 0 or v.counters.get('evaluations', 0) == 0:
        v.vacuous('vacuous run')
    cov = dict(states=out['run']['states'], transitions=out['run']['transitions'],
               traces_validated_against_impl=out['n'] - v.counters.get('skipped_single_simulated_individual', 0),
               evaluations=v.counters.get('evaluations', 0), distinct_nontrivial=nt, exhaustive=(tier == 'quick'),
               rule='TLC enumerates composition x simulated individuals x observables x times x sigma fixed/free; each with >= 2 '
                    'simulated individuals is built and evaluated (filter kind and noise scale seeded); non-trivial = a pooled or '
                    'heterogeneous dimension is present (scatter / gather exercised)',
               tlc_runs=[out['run']], spec_negative_control='FilterPosterior_asfound.cfg refuted by TLC')
    return v.finish('model_checking', cov, ASSUME)


def replay(path):
    from . import replay_filterposterior
    rep = json.load(open(path))
    fails, _ = replay_filterposterior.replay_case((rep['case']['config'], rep['seed']))
    v = Verdict(PROP, 'quick', rep['seed'])
    for f in [f for f in fails if v.failure(f)]:
        print('VIOLATION property=%s replay=%s' % (PROP, path))
        print('  clause=%s manifestation=%s detail=%s' % (f['clause'], f['manifestation'], str(f['detail'])[:400]))
        return 1
    print('replay passes (or only known findings)')
    return 0
