"""spec -> code for module FixParams (C08): EVERY transition of the fix / re-fix / release state
graph is executed on every reducible object class; the source state is reached by a shortest and by
a longer history; after the transition names, counts and every evaluation are compared with the
UNFIXED object evaluated at the substituted full vector."""
import os
import warnings

import numpy as np

from . import refsim
from .common import digest, scribble

refsim.install()
from . import probes  # noqa: E402

chi = probes.chi
import pints  # noqa: E402

LIB = os.path.join(os.path.dirname(os.path.abspath(chi.__file__)), 'library', 'model_library')
TIMES = np.array([0.5, 1.25, 2.0])
FOREIGN = 'not a parameter'


class Adapter(object):
    """own: spec name -> real parameter name (None: this object has fewer parameters, the key is foreign)"""
    own = {}

    def value(self, real, code):
        k = self.all_names().index(real)
        base = self.base_values()[k]
        # the value code "y" is ZERO (a value like any other, but falsy) for parameters whose domain contains it: locations,
        # covariate effects, mechanistic parameters; scales get 1.3 x their base value
        if code == 'y' and getattr(self, 'allow_zero', True) and (real.startswith(('Mean', 'Log mean')) or 'Cov.' in real or
                            (len(real) == 2 and real[0] == 'P' and real[1].isdigit())):
            return 0.0
        return round(base * {'x': 0.8, 'y': 1.3}[code], 4)

    def fix(self, obj, d):
        """the name-value pairs are handed over as a dict, a list of pairs, or a ONE-SHOT iterable (zip / iterator): all
        are 'convertible to a python dictionary', which is what fix_parameters documents"""
        k = int(digest([getattr(self, 'name', ''), sorted(map(str, d.items()))]), 16) % 4      # (by content: replayable)
        if k == 1:
            d = list(d.items())
        elif k == 2:
            d = zip(list(d.keys()), list(d.values()))
        elif k == 3:
            d = iter(list(d.items()))
        obj.fix_parameters(d)

    def names(self, obj):
        return list(obj.get_parameter_names())

    def nparams(self, obj):
        return int(obj.n_parameters())


def _cmp(a, b):
    a, b = np.asarray(a, dtype=float), np.asarray(b, dtype=float)
    return a.shape == b.shape and np.allclose(a, b, rtol=1e-10, atol=1e-12, equal_nan=True)


# ---------------------------------------------------------------------------------------------
class ErrAdapter(Adapter):
    def __init__(self, kind):
        self.kind = kind
        self.name = 'ReducedErrorModel[%s]' % kind
        n = probes.error_model(kind).get_parameter_names()
        self.own = {'a': n[0], 'b': n[1] if len(n) > 1 else None, 'c': None}
        self._names = n
        self.mo = np.array([1.2, 0.9, 1.7])
        self.obs = np.array([1.0, 1.1, 1.5])
        self.ms = np.array([[0.3, -0.2], [0.1, 0.4], [-0.5, 0.25]])

    def all_names(self):
        return list(self._names)

    def base_values(self):
        return [0.5, 0.3][:len(self._names)]

    def make(self):
        return chi.ReducedErrorModel(probes.error_model(self.kind))

    def plain(self):
        return probes.error_model(self.kind)

    def evaluate(self, obj, v, full_mask=None):
        out = dict(ll=obj.compute_log_likelihood(v, self.mo, self.obs),
                   pw=obj.compute_pointwise_ll(v, self.mo, self.obs),
                   sample=obj.sample(v, self.mo, n_samples=2, seed=7))
        s, g = obj.compute_sensitivities(v, self.mo, self.ms, self.obs)
        out['s1_score'] = s
        g = np.asarray(g, dtype=float)
        if full_mask is not None:                       # plain object: drop the fixed error parameters
            keep = np.concatenate([np.ones(self.ms.shape[1], dtype=bool), ~full_mask])
            g = g[keep]
        out['s1'] = g
        return out


class MechAdapter(Adapter):
    def __init__(self, sbml):
        self.sbml = sbml
        self.name = 'ReducedMechanisticModel[%s]' % ('PKPDModel' if sbml else 'ProbeMech')
        self._names = self._plain().parameters()
        self.own = dict(zip('abc', self._names[:3]))

    def _plain(self):
        if self.sbml:
            m = chi.PKPDModel(os.path.join(LIB, 'pk_one_comp.xml'))
            m.set_administration('central', direct=True)
            m.set_dosing_regimen(1.5, start=0.25, duration=0.5, period=1)
            return m
        return probes.ProbeMech(3, 2, tag='fixmech')

    def all_names(self):
        return list(self._names)

    def base_values(self):
        return [1.1, 0.9, 0.7][:len(self._names)]

    def make(self):
        return chi.ReducedMechanisticModel(self._plain())

    def plain(self):
        return self._plain()

    def names(self, obj):
        return list(obj.parameters())

    def prime(self, obj):
        """sensitivities are switched on BEFORE the fixing history, and stay on"""
        obj.enable_sensitivities(True)

    def evaluate(self, obj, v, full_mask=None, primed=False):
        v = np.array(v, dtype=float)
        out = {}
        nfree = len(v) if full_mask is None else int(np.sum(~full_mask))
        def with_sens(switch_on):
            """(outputs, sensitivities w.r.t. the free parameters); with every parameter fixed the plain model has
            nothing to differentiate and the expected sensitivities are an empty (T, n_outputs, 0) array"""
            if full_mask is not None and nfree == 0:
                obj.enable_sensitivities(False)
                o = obj.simulate(v, TIMES)
                return o, np.empty((len(TIMES), len(o), 0))
            if full_mask is not None:
                obj.enable_sensitivities(True, [n for n, m in zip(self._names, full_mask) if not m])
            elif switch_on:
                obj.enable_sensitivities(True)
            elif not obj.has_sensitivities():
                raise AssertionError('sensitivities switched off by fix_parameters')
            return obj.simulate(v, TIMES)
        if primed:
            # sensitivities were on through the whole history: the object must still deliver them, for exactly its free
            # parameters, without being told again
            out['sim_primed'], out['sens_primed'] = with_sens(False)
        obj.enable_sensitivities(False)
        out['sim'] = obj.simulate(v, TIMES)
        out['sim_s'], out['sens'] = with_sens(True)
        # a copy behaves like its original (sensitivities switched off on both sides)
        c = obj.copy()
        c.enable_sensitivities(False)
        out['copy_sim'] = c.simulate(v, TIMES)
        obj.enable_sensitivities(False)
        out['sim_after'] = obj.simulate(v, TIMES)
        # a copy is independent of its original: re-fixing / releasing on the COPY leaves the original alone
        fixed = [n for n in self._names if n not in list(obj.parameters())] if hasattr(obj, 'fix_parameters') else []
        if fixed:
            c2 = obj.copy()
            c2.fix_parameters({fixed[0]: 123.0})
            c2.fix_parameters({fixed[-1]: None})
        out['sim_after_copy_changed'] = obj.simulate(v, TIMES)
        if self.sbml:
            # a periodic regimen set THROUGH the object (wrapper or plain model) after the history: every argument reaches
            # the model under its own name; afterwards the regimen of the other evaluations is put back
            obj.set_dosing_regimen(2.0, start=0.1, duration=0.2, period=0.7, num=3)
            out['sim_regimen_set_through_the_object'] = obj.simulate(v, TIMES)
            obj.set_dosing_regimen(1.5, start=0.25, duration=0.5, period=1)
        return out


class PopAdapter(Adapter):
    def __init__(self, which):
        self.which = which
        self.name = 'ReducedPopulationModel[%s]' % which
        self._names = self._plain().get_parameter_names()
        pick = {'gauss2': ['Mean Dim. 2', 'Std. Dim. 1', 'Std. Dim. 2'],
                'composed': ['Log std. Dim. 1', 'Pooled Dim. 1', 'Mean Dim. 1'],
                'covariate': ['Std. Dim. 1', 'Mean Dim. 1 Cov. 1', 'Pooled Dim. 1'],
                'pooled': ['Pooled Dim. 1', 'Pooled Dim. 3', 'Pooled Dim. 4'],
                'renamed': ['Log std. CL', 'Pooled V', 'Mean ka']}[which]
        self.own = dict(zip('abc', pick))
        rng = np.random.default_rng(11)
        self.covs = np.array([[0.2], [0.7], [0.4]])
        self.w = np.round(rng.uniform(-1, 1, size=(3, self._plain().n_dim())), 3)

    def _plain(self, rename=True):
        if self.which == 'renamed':
            m = chi.ComposedPopulationModel([chi.LogNormalModel(centered=False), chi.PooledModel(), chi.GaussianModel()])
            if rename:
                m.set_dim_names(['CL', 'V', 'ka'])
            m.set_n_ids(3)
            return m
        if self.which == 'pooled':
            m = chi.PooledModel(n_dim=4)
        elif self.which == 'gauss2':
            m = chi.GaussianModel(n_dim=2)
        elif self.which == 'composed':
            m = chi.ComposedPopulationModel([chi.LogNormalModel(centered=False), chi.PooledModel(), chi.GaussianModel()])
        else:
            m = chi.ComposedPopulationModel([
                chi.CovariatePopulationModel(chi.GaussianModel(), chi.LinearCovariateModel(n_cov=1)), chi.PooledModel()])
        m.set_n_ids(3)
        return m

    def all_names(self):
        return list(self._names)

    def base_values(self):
        vals = []
        for n in self._names:
            if 'Cov.' in n:
                vals.append(0.1)
            elif n.startswith(('Std', 'Log std')):
                vals.append(0.5)
            elif n.startswith('Log mean'):
                vals.append(0.2)
            else:
                vals.append(1.0)
        return vals

    def make(self):
        if self.which == 'renamed':
            # the wrapper exists BEFORE the dimensions are renamed: fixing goes by the names reported afterwards
            m = chi.ReducedPopulationModel(self._plain(rename=False))
            m.set_dim_names(['CL', 'V', 'ka'])
            return m
        return chi.ReducedPopulationModel(self._plain())

    def plain(self):
        return self._plain()

    def _obs(self, full):
        """individual parameters consistent with pooled dimensions at the given FULL vector"""
        names = self._names
        if self.which == 'pooled':
            return np.array([np.asarray(full, dtype=float)] * 3)
        if self.which == 'gauss2':
            return np.array([[0.8, 1.3], [1.1, 0.9], [1.4, 1.0]])
        if self.which == 'renamed':
            pooled = full[names.index('Pooled V')]
            return np.array([[0.3, pooled, 0.8], [-0.4, pooled, 1.3], [0.1, pooled, 1.1]])
        pooled = full[names.index('Pooled Dim. 1')] if 'Pooled Dim. 1' in names else full[names.index('Pooled Dim. 2')]
        if self.which == 'composed':
            return np.array([[0.3, pooled, 0.8], [-0.4, pooled, 1.3], [0.1, pooled, 1.1]])
        return np.array([[0.8, pooled], [1.2, pooled], [0.95, pooled]])

    def evaluate(self, obj, v, full_mask=None, full=None):
        kw = {'covariates': self.covs} if self.which == 'covariate' else {}
        obs = self._obs(np.asarray(full, dtype=float))
        v = np.array(v, dtype=float)
        out = dict(ll=obj.compute_log_likelihood(v, obs, **kw))
        s, dpsi, dth = obj.compute_sensitivities(v, obs, dlogp_dpsi=self.w.copy(), **kw)
        dth = np.asarray(dth, dtype=float)
        red = np.asarray(obj.compute_sensitivities(v, obs, dlogp_dpsi=self.w.copy(), reduce=True, **kw)[1], dtype=float)
        if full_mask is not None:
            dth = dth[~full_mask]
            nb = len(red) - len(full_mask)
            red = np.concatenate([red[:nb], red[nb:][~full_mask]])
        out.update(s1_score=s, dpsi=dpsi, dtheta=dth, reduced=red)
        out['sample'] = obj.sample(v, n_samples=3, seed=5, **kw)
        eta = obs.copy()
        if self.which != 'gauss2':
            idx = (0 if self.which == 'composed' else None)
        out['psi'] = obj.compute_individual_parameters(v, obs, **kw) if self.which != 'covariate' else \
            obj.compute_individual_parameters(v, obs, covariates=self.covs)
        return out

    def names(self, obj):
        return list(obj.get_parameter_names())


class LLAdapter(Adapter):
    name = 'LogLikelihood'

    def __init__(self, own=None):
        self._names = self._plain().get_parameter_names()
        # default: one parameter of every sub-model; 'mech': the fixed set can cover ALL parameters of the mechanistic
        # sub-model (the composite wraps / unwraps its sub-models on demand)
        self.own = {'a': 'P2', 'b': 'Y1 Sigma', 'c': 'Y2 Sigma rel.'} if own is None else own
        if own is not None:
            self.name = type(self).name + '[all mechanistic parameters]'

    def _plain(self):
        mech = probes.ProbeMech(2, 2, tag='fixll')
        return chi.LogLikelihood(mech, [chi.GaussianErrorModel(), chi.ConstantAndMultiplicativeGaussianErrorModel()],
                                 [[1.2, 2.0, 1.7], [2.5, 3.1]], [[0.5, 1.0, 2.0], [1.0, 1.5]])

    def all_names(self):
        return list(self._names)

    def base_values(self):
        return [1.0, 0.8, 0.6, 0.5, 0.3]

    def make(self):
        return self._plain()

    def plain(self):
        return self._plain()

    def prime(self, obj):
        """a gradient evaluation BEFORE the fixing history leaves the mechanistic model with sensitivities on"""
        obj.evaluateS1(np.array(self.base_values()))

    def evaluate(self, obj, v, full_mask=None, primed=False):
        v = np.array(v, dtype=float)
        out = {}
        if primed:
            s, g = obj.evaluateS1(v)
            g = np.asarray(g, dtype=float)
            out.update(s1_first_score=s, s1_first=g if full_mask is None else g[~full_mask])
        out.update(call=obj(v), pw=obj.compute_pointwise_ll(v))
        s, g = obj.evaluateS1(v)
        g = np.asarray(g, dtype=float)
        if full_mask is not None:
            g = g[~full_mask]
        out.update(s1_score=s, s1=g, call_after_s1=obj(v))
        return out


class CtrlAdapter(Adapter):
    """chi.ProblemModellingController: fix_parameters on the controller, then the posterior it builds.  Without a
    population model the mechanistic and error-model parameters can be fixed; with one, its population parameters.
    The log-prior is reset by fixing (documented), so a prior of the right dimension is set before the posterior is
    requested and the comparison is made on the log-likelihood the posterior holds."""

    slow = True

    def __init__(self, mode):
        self.mode = mode
        self.name = 'ProblemModellingController[%s]' % mode
        self._names = self._plain().get_parameter_names()
        self.own = ({'a': 'P2', 'b': 'Y1 Sigma', 'c': 'Y2 Sigma rel.'} if mode == 'indiv' else
                    {'a': 'Log std. P1', 'b': 'Pooled Y1 Sigma', 'c': 'Mean Y2 Sigma rel.'})

    def _frame(self):
        import pandas as pd
        rows = []
        data = [([1.2, 2.0, 1.7], [2.5, 3.1]), ([1.0, 1.9, 1.5], [2.2, 3.0]), ([1.4, 2.2, 1.6], [2.4, 2.8])]
        for i, (ya, yb) in enumerate(data):
            for t, y in zip([0.5, 1.0, 2.0], ya):
                rows.append(dict(ID=i + 1, Time=t, Observable='A', Value=y))
            for t, y in zip([1.0, 1.5], yb):
                rows.append(dict(ID=i + 1, Time=t, Observable='B', Value=y))
        return pd.DataFrame(rows)

    def _plain(self):
        mech = probes.ProbeMech(2, 2, tag='fixctrl')
        c = chi.ProblemModellingController(mech, [chi.GaussianErrorModel(), chi.ConstantAndMultiplicativeGaussianErrorModel()])
        c.set_data(self._frame(), output_observable_dict={'Y1': 'A', 'Y2': 'B'})
        if self.mode == 'pop':
            c.set_population_model(chi.ComposedPopulationModel([
                chi.LogNormalModel(dim_names=['P1']), chi.PooledModel(n_dim=3, dim_names=['P2', 'Y1 Sigma', 'Y2 Sigma base']),
                chi.GaussianModel(dim_names=['Y2 Sigma rel.'])]))
        return c

    def all_names(self):
        return list(self._names)

    def base_values(self):
        if self.mode == 'indiv':
            return [1.0, 0.8, 0.6, 0.5, 0.3]
        return [{'Log mean P1': 0.1, 'Log std. P1': 0.4, 'Mean Y2 Sigma rel.': 0.3, 'Std. Y2 Sigma rel.': 0.2}.get(n, 0.7)
                for n in self._names]

    def make(self):
        return self._plain()

    def plain(self):
        return self._plain()

    def names(self, obj):
        return list(obj.get_parameter_names())

    def nparams(self, obj):
        return int(obj.get_n_parameters())

    def evaluate(self, obj, v, full_mask=None):
        import pints
        v = np.array(v, dtype=float)
        n = obj.get_n_parameters()
        obj.set_log_prior(pints.ComposedLogPrior(*[pints.GaussianLogPrior(1.0, 2.0) for _ in range(n)]))
        out = {}
        if self.mode == 'indiv':
            for ind in ('1', '3'):
                ll = obj.get_log_posterior(individual=ind).get_log_likelihood()
                s, g = ll.evaluateS1(v)
                g = np.asarray(g, dtype=float)
                out.update({'call' + ind: ll(v), 's1_score' + ind: s, 's1_' + ind: g if full_mask is None else g[~full_mask],
                            'pw' + ind: ll.compute_pointwise_ll(v)})
            return out
        hl = obj.get_log_posterior().get_log_likelihood()
        nb = hl.n_parameters() - hl.n_parameters(exclude_bottom_level=True)
        bottom = np.array([1.1, 0.35, 0.9, 0.25, 1.3, 0.3])[:nb]         # (P1, Y2 Sigma rel.) per individual
        x = np.concatenate([bottom, v])
        s, g = hl.evaluateS1(x)
        g = np.asarray(g, dtype=float)
        if full_mask is not None:
            g = np.concatenate([g[:nb], g[nb:][~full_mask]])
        out.update(call=hl(x), s1_score=s, s1=g, n_bottom=nb,
                   marked=sum(1 for i in hl.get_id() if i is not None))
        return out


class PMAdapter(LLAdapter):
    name = 'PredictiveModel'

    def _plain(self):
        mech = probes.ProbeMech(2, 2, tag='fixpm')
        return chi.PredictiveModel(mech, [chi.GaussianErrorModel(), chi.ConstantAndMultiplicativeGaussianErrorModel()])

    def prime(self, obj):
        pass

    def evaluate(self, obj, v, full_mask=None, primed=False):
        v = np.array(v, dtype=float)
        return dict(sample=obj.sample(v, [2.0, 0.5, 1.0], n_samples=2, seed=3, return_df=False),
                    sample_again=obj.sample(v, [2.0, 0.5, 1.0], n_samples=2, seed=3, return_df=False))


class PPMAdapter(Adapter):
    """chi.PopulationPredictiveModel: population parameters are fixed, samples are compared under the same seed"""
    name = 'PopulationPredictiveModel'
    allow_zero = False          # (its Gaussian dimension is the mean of a noise scale)

    def __init__(self):
        self._names = self._plain().get_parameter_names()
        self.own = {'a': 'Log std. Dim. 1', 'b': 'Pooled Dim. 2', 'c': 'Mean Dim. 1'}

    def _plain(self):
        pm = chi.PredictiveModel(probes.ProbeMech(2, 1, tag='fixppm'), [chi.ConstantAndMultiplicativeGaussianErrorModel()])
        pop = chi.ComposedPopulationModel([chi.LogNormalModel(), chi.PooledModel(n_dim=2), chi.GaussianModel(centered=False)])
        return chi.PopulationPredictiveModel(pm, pop)

    def all_names(self):
        return list(self._names)

    def base_values(self):
        return [0.3 if n.startswith('Log std') else 0.05 if n.startswith('Std') else 0.1 if n.startswith('Log mean') else 0.6
                for n in self._names]

    def make(self):
        return self._plain()

    def plain(self):
        return self._plain()

    def evaluate(self, obj, v, full_mask=None):
        v = np.array(v, dtype=float)
        return dict(sample=obj.sample(v, [2.0, 0.5, 1.0], n_samples=3, seed=4, return_df=False),
                    sample_again=obj.sample(v, [2.0, 0.5, 1.0], n_samples=3, seed=4, return_df=False))


class PMUserReducedAdapter(PMAdapter):
    """PredictiveModel built from a ReducedErrorModel of the USER's (one parameter already fixed): two holders are built
    from the same user models, the history is applied to one of them, the sibling must not notice (its mask and value
    buffer are its own)."""
    name = 'PredictiveModel[user ReducedErrorModel]'
    container = 'PredictiveModel'

    def __init__(self):
        self._names = self._plain().get_parameter_names()
        self.own = {'a': 'P2', 'b': 'Y1 Sigma base', 'c': 'Y2 Sigma rel.'}

    def _user(self):
        rem = chi.ReducedErrorModel(chi.ConstantAndMultiplicativeGaussianErrorModel())
        rem.fix_parameters({'Sigma rel.': 0.25})
        return probes.ProbeMech(2, 2, tag='fixusr'), [rem, chi.ConstantAndMultiplicativeGaussianErrorModel()]

    def _build(self, u):
        if self.container == 'PredictiveModel':
            return chi.PredictiveModel(u[0], u[1])
        return chi.LogLikelihood(u[0], u[1], [[1.2, 2.0, 1.7], [2.5, 3.1]], [[0.5, 1.0, 2.0], [1.0, 1.5]])

    def _plain(self):
        return self._build(self._user())

    def base_values(self):
        return [1.0, 0.8, 0.5, 0.4, 0.3]

    def make(self):
        self._u = self._user()
        return self._build(self._u)

    def sibling(self):
        return self._build(self._u)


class LLUserReducedAdapter(PMUserReducedAdapter):
    name = 'LogLikelihood[user ReducedErrorModel]'
    container = 'LogLikelihood'
    prime = LLAdapter.prime
    evaluate = LLAdapter.evaluate


def adapters():
    return [ErrAdapter('G'), ErrAdapter('M'), ErrAdapter('C'), ErrAdapter('L'), MechAdapter(False), MechAdapter(True),
            PopAdapter('gauss2'), PopAdapter('composed'), PopAdapter('covariate'), PopAdapter('pooled'), PopAdapter('renamed'), LLAdapter(), PMAdapter(),
            LLAdapter({'a': 'P1', 'b': 'P2', 'c': 'Y2 Sigma base'}), PMAdapter({'a': 'P1', 'b': 'P2', 'c': 'Y1 Sigma'}),
            CtrlAdapter('indiv'), CtrlAdapter('pop'), PPMAdapter(), PMUserReducedAdapter(), LLUserReducedAdapter()]


_ADAPTERS = {}


def get_adapter(i):
    if not _ADAPTERS:
        for k, a in enumerate(adapters()):
            _ADAPTERS[k] = a
    return _ADAPTERS[i]


def real_dict(ad, d):
    out = {}
    for k, code in d.items():
        if code == 'Absent':
            continue
        real = ad.own.get(k) if k != 'z' else FOREIGN
        if real is None:
            real = FOREIGN + ' ' + k
        out[real] = None if code == 'None' else (ad.value(real, code) if not real.startswith(FOREIGN) else 1.0)
    return out


def self_ms(ad):
    """number of leading gradient entries that belong to the model outputs' upstream parameters (error-model adapters)"""
    ms = getattr(ad, 'ms', None)
    return int(ms.shape[1]) if ms is not None else 0


def replay_case(arg):
    rec, ai, seed = arg
    ad = get_adapter(ai)
    fails, cnt = [], {'cases': 1}
    src = rec['src'] if isinstance(rec['src'], dict) else {}
    dst = rec['dst'] if isinstance(rec['dst'], dict) else {}
    key = digest([rec, ai])
    rng = np.random.default_rng([seed, int(key, 16) % (2 ** 31)])
    feats = ['class_' + ad.name]
    if any(v == 'None' for v in rec['d'].values()):
        feats.append('release')
    if any(k in src and v not in ('None', 'Absent') for k, v in rec['d'].items()):
        feats.append('refix')
    for f in feats:
        cnt['feat_' + f] = 1

    def fail(clause, manifestation, detail):
        fails.append(dict(case=dict(config=rec, adapter=ai, cls=ad.name), clause=clause, manifestation=manifestation,
                          detail=detail, features=feats))
    try:
        with warnings.catch_warnings():
            warnings.simplefilter('error', RuntimeWarning)
            obj = ad.make()
            sib = ad.sibling() if hasattr(ad, 'sibling') else None
            long_history = bool(rng.integers(2))
            primed = hasattr(ad, 'prime') and bool(rng.integers(2))
            if primed:
                ad.prime(obj)
                cnt['primed_histories'] = 1
                feats.append('primed')
            if long_history:
                d0 = {k: str(rng.choice(['x', 'y', 'None', 'Absent'])) for k in 'abc'}
                ad.fix(obj, real_dict(ad, d0))
                ad.fix(obj, real_dict(ad, {k: src.get(k, 'None') for k in 'abc'}))
                cnt['long_histories'] = 1
            elif src:
                ad.fix(obj, real_dict(ad, src))
            ad.fix(obj, real_dict(ad, rec['d']))
            cnt['scribbles'] = scribble(obj)
            # expected abstract state restricted to the names this object owns
            all_names = ad.all_names()
            fixed_real = {ad.own[k]: ad.value(ad.own[k], code) for k, code in dst.items() if ad.own.get(k)}
            mask = np.array([n in fixed_real for n in all_names])
            exp_free = [n for n in all_names if n not in fixed_real]
            if ad.names(obj) != exp_free:
                fail('CountsOK', 'names', dict(got=ad.names(obj), expected=exp_free, long_history=long_history))
            if ad.nparams(obj) != len(exp_free):
                fail('CountsOK', 'n_parameters', dict(got=ad.nparams(obj), expected=len(exp_free)))
            if hasattr(obj, 'n_fixed_parameters') and obj.n_fixed_parameters() != len(fixed_real):
                fail('CountsOK', 'n_fixed_parameters', dict(got=obj.n_fixed_parameters(), expected=len(fixed_real)))
            if fails:
                return fails, cnt
            base = ad.base_values()
            full = np.array([fixed_real.get(n, round(b * (1 + 0.07 * (i + 1)), 4)) for i, (n, b) in enumerate(zip(all_names, base))])
            v = full[~mask]
            extra = {'full': full} if isinstance(ad, PopAdapter) else ({'primed': True} if primed else {})
            got = ad.evaluate(obj, v.copy(), **extra)
            exp = ad.evaluate(ad.plain(), full.copy(), full_mask=mask, **extra)
            cnt['evaluations'] = len(got)
            # results are VALUES: what an evaluation returned does not change when the object is evaluated again at another
            # point (a result that is a view of the wrapper's value buffer, or of the caller's vector, would)
            if not getattr(ad, 'slow', False):
                kept = {k: (got[k], np.array(got[k], dtype=float, copy=True)) for k in got if isinstance(got[k], np.ndarray)}
                v_other = np.array(v, dtype=float) * 1.25 + 0.01
                try:
                    ad.evaluate(obj, v_other, **({'full': np.where(mask, full, full * 1.25 + 0.01)} if isinstance(ad, PopAdapter)
                                                 else ({'primed': True} if primed else {})))
                except Exception:
                    pass                      # (the second point may be outside the support: only the retained results matter)
                changed = [k for k, (ref_, cp_) in kept.items()
                           if not np.array_equal(np.asarray(ref_, dtype=float), cp_, equal_nan=True)]
                if changed:
                    fail('ResultsAreValues', '+'.join(changed), dict(note='an earlier result changed after a later evaluation'))
            # lengths agree with the count the object reports NOW: one sensitivity column / gradient entry per free parameter
            nfree_now = ad.nparams(obj)
            for k_, a_ in got.items():
                if not isinstance(a_, np.ndarray):
                    continue
                if k_.startswith('sens') and a_.ndim == 3 and a_.shape[-1] != nfree_now:
                    fail('CountsOK', 'sensitivity_columns', dict(result=k_, got=int(a_.shape[-1]), n_parameters=nfree_now,
                                                                 primed=primed))
                elif k_ in ('s1', 's1_first') and a_.ndim == 1 and not isinstance(ad, CtrlAdapter) and \
                        len(a_) != nfree_now + (self_ms(ad)):
                    fail('CountsOK', 'gradient_length', dict(result=k_, got=len(a_), n_parameters=nfree_now, primed=primed))
            bad = [k for k in exp if k in got and not _cmp(got[k], exp[k])]
            missing = [k for k in exp if k not in got]
            if sib is not None:
                # the sibling holder, built from the same user models BEFORE the history, has nothing fixed of its own
                cnt['siblings'] = 1
                base_full = np.array([round(b * (1 + 0.07 * (i + 1)), 4) for i, b in enumerate(base)])
                got_s = ad.evaluate(sib, base_full.copy())
                exp_s = ad.evaluate(ad.plain(), base_full.copy(), full_mask=np.zeros(len(base), dtype=bool))
                bad_s = [k for k in exp_s if k not in got_s or not _cmp(got_s[k], exp_s[k])]
                if ad.names(sib) != all_names or bad_s:
                    fail('SiblingUnaffected', '+'.join(bad_s) or 'names', dict(names=ad.names(sib), expected_names=all_names))
            if bad or missing:
                fail('SubstitutionOK', '+'.join(bad + missing), dict(
                    long_history=long_history, primed=primed, got={k: np.asarray(got[k]).tolist() for k in bad},
                    expected={k: np.asarray(exp[k]).tolist() for k in bad}))
    except Exception as e:
        fail('Evaluable', type(e).__name__, repr(e))
    return fails, cnt
