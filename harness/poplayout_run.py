"""Shared run of module PopLayout (serves C02, C03, C17): TLC exhaustive pass + negative control +
replay of every enumerated composition into chi."""
import json

from . import tlc, interp
from .cache import cached
from .common import MachineryError
from .verdict import pmap

CFGS = {
    'quick': ['PopLayout_quick1.cfg', 'PopLayout_quick2.cfg', 'PopLayout_quick3.cfg'],
    'thorough': ['PopLayout_thorough.cfg', 'PopLayout_fixed2.cfg', 'PopLayout_cov2.cfg'],
}

# which property judges which clause of the replay
CLAUSES = {
    'C02': {'Construct', 'Evaluable', 'Denotation', 'SpecialTableOK', 'NamesIds', 'NoInputWrite'},
    'C03': {'EvaluableS1', 'GradSlotOK', 'HistoryFree', 'PosteriorGrad'},
    'C17': {'Agree', 'UniqueDefault'},
}


def _compute(tier, seed):
    problems = interp.self_test()
    if problems:
        raise MachineryError('interpretation table self-test: %s' % problems)
    runs = []
    records = {}
    for cfg in CFGS[tier]:
        r = tlc.run('PopLayout', cfg, coverage=False)
        runs.append(r.summary())
        for rec in r.records:
            records[json.dumps(rec, sort_keys=True)] = rec
    try:
        tlc.run('PopLayout', 'PopLayout_asfound.cfg', want_records=False)
        raise MachineryError('negative control failed: as-found covariate/special scatter not refuted')
    except tlc.SpecViolation as e:
        if e.res.violated != 'ScatterOK':
            raise MachineryError('as-found variant refuted on %s' % e.res.violated)
    from . import replay_poplayout
    recs = list(records.values())
    results = pmap(replay_poplayout.replay_case, [(rec, seed) for rec in recs])
    samples = [dict(subs=r['subs'], nids=r['nids'], fixed=r['fixed'], layout=r['layout'], names=r['names'],
                    ids=r['ids']) for r in (recs[:1] + recs[len(recs) // 2:len(recs) // 2 + 1] + recs[-1:])]
    return dict(runs=runs, n=len(recs), results=[(f, c) for f, c in results], samples=samples)


def run(tier, seed):
    return cached('poplayout', tier, seed, lambda: _compute(tier, seed))
