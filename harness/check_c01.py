"""C01 -- the individual log-likelihood sums each observation's density exactly once.

1. TLC model-checks module LogLik exhaustively within the tier's constants: ExactlyOnce, BagIsDecl,
   PointwiseSum, SlicesPartition, Evaluable, SolveOnce, GradIsDecl, HistoryFree for every
   configuration of per-output time grids (ties included) x error kinds and every history of
   evaluation calls; the as-found variant of the mechanism must be refuted (negative control).
2. Every configuration TLC exported is replayed into the real chi.LogLikelihood
   (harness/replay_loglik.py).
"""
import json

from . import tlc, interp
from .common import MachineryError
from .verdict import Verdict, pmap

PROP = 'C01'
ASSUME = [
    'ProbeMech (closed-form mechanistic model of the harness) stands for "any mechanistic model"; '
    'its outputs are injective in (output, time) so the observed pairing is unambiguous',
    'numeric value of each density symbol is given by harness/interp.py (typed from the class docstrings); '
    'derivatives by complex step, tolerance 1e-9 (values) / 1e-8 (gradients)',
    'times are concretised as 0.25 + 0.5*t (exact binary floats), observations seeded in [0.6, 3.0]',
]


def run(tier, seed):
    from . import loglik_run
    v = Verdict(PROP, tier, seed)
    out = loglik_run.run(tier, seed)
    v.notes.append('spec-level negative control: as-found boolean-mask selection refuted by TLC (EvaluableInv)')
    behind = 0
    for fails, cnt in out['results']:
        mine = [f for f in fails if f['clause'] != 'FiniteAgree']        # (finiteness agreement with evaluateS1: C03)
        v.failures(mine)
        if fails and not mine:
            behind += 1
        v.merge_counters(cnt)
    v.counters['cases_failing_on_clauses_of_other_properties'] = behind
    for rec in out['records_sample']:
        v.sample(dict(grid=rec['grid'], kind=rec['kind'], union=rec['union'], sel=rec['sel'],
                      slices=rec['slices'], names=rec['names']))
    if v.counters.get('with_ties', 0) == 0 or v.counters.get('nontrivial', 0) == 0:
        v.vacuous('vacuous run: no configuration with ties / non-trivial selection')
    cov = dict(
        states=sum(r['states'] for r in out['runs']), transitions=sum(r['transitions'] for r in out['runs']),
        traces_validated_against_impl=v.counters.get('cases', 0),
        evaluations=v.counters.get('evaluations', 0),
        distinct_nontrivial=v.counters.get('nontrivial', 0),
        rule='TLC enumerates every tuple of non-decreasing per-output time grids within the constants x error '
             'kinds; every configuration is replayed into chi.LogLikelihood with a seeded history of 5 '
             'evaluations; non-trivial = some grid differs from the union grid or has a tied time',
        exhaustive=True,
        tlc_runs=out['runs'],
    )
    return v.finish('model_checking', cov, ASSUME)


def replay(path):
    from . import replay_loglik
    with open(path) as f:
        rep = json.load(f)
    if 'long_series' in rep['case']['config']:
        fails, _ = replay_loglik.long_series_checks(rep['seed'])
    else:
        fails, _ = replay_loglik.replay_case((rep['case']['config'], rep['seed']))
    for f_ in fails:
        print('VIOLATION property=%s replay=%s' % (PROP, path))
        print('  clause=%s manifestation=%s detail=%s' % (f_['clause'], f_['manifestation'], str(f_['detail'])[:400]))
        return 1
    print('replay passes')
    return 0
