"""spec -> code for module Dosing (C10): every regimen x final time TLC enumerates is (i) set on a
PKPD model inside predictive models whose regimen table must equal the specification's Table(T),
and (ii) applied to a generated accumulator model (no elimination) on RefSim, directly and through
the absorption depot, whose simulated amounts must equal the specification's cumulative input at
every half time unit; (iii) the same through an explicit myokit.Protocol."""
import os
import warnings

import numpy as np

from . import refsim, sbmlgen
from .common import digest

refsim.install()
from . import probes  # noqa: E402

chi = probes.chi
import myokit  # noqa: E402


MODES = ('plain', 'sens', 'reselect', 'reduced_fix', 'sens_off')


def features(rec):
    f = []
    if rec['evperiod'] > 0 and rec['evmult'] == 0:
        f.append('indefinite')
    if rec['evperiod'] > 0 and rec['evmult'] == 0 and rec['final'] >= 0:
        f.append('indefinite_finite_final')
    if rec['start'] > 0:
        f.append('nonzero_start')
    if rec['final'] >= 0 and rec['evperiod'] > 0 and rec['final'] < rec['start'] + rec['evperiod']:
        f.append('final_within_first_period')
    if rec['final'] >= 0 and rec['evperiod'] > 0 and (rec['final'] - rec['start']) % rec['evperiod'] == 0:
        f.append('dose_at_final_time')
    return f


def _table(df):
    if df is None:
        return []
    return sorted([float(r['Time']), float(r['Duration']), float(r['Dose'])] for _, r in df.iterrows())


def replay_case(arg):
    rec, seed = arg
    fails, cnt = [], {'cases': 1}
    key = digest(rec)
    rng = np.random.default_rng([seed, int(key, 16) % (2 ** 31)])
    feats = features(rec)
    for f in feats:
        cnt['feat_' + f] = 1

    def fail(clause, manifestation, detail):
        fails.append(dict(case=dict(config=rec), clause=clause, manifestation=manifestation, detail=detail,
                          features=feats))
    dose, start, dur = float(rec['dose']), float(rec['start']), float(rec['dur'])
    period = rec['period'] if rec['period'] > 0 else None
    num = rec['num'] if rec['num'] > 0 else None
    final = None if rec['final'] < 0 else float(rec['final'])
    exp_table = sorted([float(a), float(b), float(c)] for a, b, c in rec['table'])
    path = sbmlgen.chain_model(2, 1, [2, 1], [1], inter=False)
    try:
        direct = bool(rng.integers(2))
        target = 'xa' if rng.integers(2) else 'xb'
        for use_protocol in (False, True):
            model = chi.PKPDModel(path)
            model.set_administration('global', amount_var=target, direct=direct)
            if use_protocol:
                p = myokit.Protocol()
                p.schedule(level=dose / dur, start=start, duration=dur, period=rec['evperiod'], multiplier=rec['evmult'])
                model.set_dosing_regimen(p)
            else:
                model.set_dosing_regimen(dose, start=start, duration=dur, period=period, num=num)
            got = refsim.protocol_events(model.dosing_regimen())
            if got != ((dose / dur, start, dur, float(rec['evperiod']), rec['evmult']),):
                fail('Translate', 'event', dict(got=got, use_protocol=use_protocol))
            # ---- (i) regimen table through the predictive models ---------------------------
            pm = chi.PredictiveModel(model, [chi.GaussianErrorModel()] * model.n_outputs())
            holders = [('PredictiveModel', pm)]
            if not use_protocol:
                holders.append(('PopulationPredictiveModel', chi.PopulationPredictiveModel(
                    pm, chi.ComposedPopulationModel([chi.PooledModel(n_dim=pm.n_parameters())]))))
            for name, h in holders:
                with warnings.catch_warnings():
                    warnings.simplefilter('ignore', FutureWarning)
                    df = h.get_dosing_regimen(final)
                t = _table(df)
                cnt['evaluations'] = cnt.get('evaluations', 0) + 1
                if t != exp_table:
                    fail('TableIsApplied', 'table', dict(holder=name, got=t, expected=exp_table, use_protocol=use_protocol))
                if (df is None) != (not exp_table):
                    fail('TableIsApplied', 'none_iff_empty', dict(holder=name, got=None if df is None else len(df)))
            # ---- (i') the regimen set THROUGH the predictive models' own set_dosing_regimen: every holder, and every
            # member of an averaged model, reports the specification's table afterwards
            if not use_protocol:
                import xarray as xr

                def undosed():
                    m_ = chi.PKPDModel(path)
                    m_.set_administration('global', amount_var=target, direct=direct)
                    return chi.PredictiveModel(m_, [chi.GaussianErrorModel()] * m_.n_outputs())

                def posterior_over(p_):
                    ds = xr.Dataset({n_: (('chain', 'draw', 'individual'), np.full((1, 2, 1), 0.5 + 0.1 * k_))
                                     for k_, n_ in enumerate(p_.get_parameter_names())},
                                    coords={'chain': [0], 'draw': [0, 1], 'individual': ['a']})
                    return chi.PosteriorPredictiveModel(p_, ds)
                # ... and through the fixed-parameter wrapper of the mechanistic model (all five arguments reach the model)
                m_r = chi.PKPDModel(path)
                m_r.set_administration('global', amount_var=target, direct=direct)
                red_r = chi.ReducedMechanisticModel(m_r)
                red_r.set_dosing_regimen(dose, start, dur, period, num)
                got_r = refsim.protocol_events(red_r.dosing_regimen())
                if got_r != ((dose / dur, start, dur, float(rec['evperiod']), rec['evmult']),):
                    fail('Translate', 'event_through_reduced_wrapper', dict(got=got_r))
                via = [('PredictiveModel.set_dosing_regimen', undosed())]
                via.append(('PosteriorPredictiveModel.set_dosing_regimen', posterior_over(undosed())))
                members = [posterior_over(undosed()) for _ in range(3)]
                via.append(('PAMPredictiveModel.set_dosing_regimen', chi.PAMPredictiveModel(members, weights=[1, 1, 2])))
                for name, h in via:
                    h.set_dosing_regimen(dose, start=start, duration=dur, period=period, num=num)
                    parts = [(name, h)] + ([('%s member %d' % (name, q + 1), mem) for q, mem in enumerate(members)]
                                           if name.startswith('PAM') else [])
                    for pname, ph in parts:
                        with warnings.catch_warnings():
                            warnings.simplefilter('ignore', FutureWarning)
                            t = _table(ph.get_dosing_regimen(final))
                        cnt['evaluations'] = cnt.get('evaluations', 0) + 1
                        if t != exp_table:
                            fail('TableIsApplied', 'table_set_through_holder', dict(holder=pname, got=t, expected=exp_table))
                    # the table that comes WITH a sample (include_regimen): the doses up to the LATEST requested time, whatever
                    # the order in which the times are listed (here the latest time is listed first)
                    if final is not None and final > 0:
                        with warnings.catch_warnings():
                            warnings.simplefilter('ignore')
                            df_s = h.sample([final, 0.5 * final], n_samples=2, seed=1, include_regimen=True) \
                                if name.startswith(('PAM', 'Posterior')) else \
                                h.sample([0.5 + 0.1 * k_ for k_ in range(h.n_parameters())], [final, 0.5 * final], n_samples=2,
                                         seed=1, include_regimen=True)
                        rows_s = df_s[df_s['Dose'].notna()] if 'Dose' in df_s.columns else df_s.iloc[0:0]
                        per_id = name.startswith('PredictiveModel')           # (one copy of the table per simulated individual)
                        t_s = _table(rows_s[rows_s['ID'] == rows_s['ID'].iloc[0]]) if (per_id and len(rows_s)) else _table(rows_s)
                        cnt['evaluations'] = cnt.get('evaluations', 0) + 1
                        if t_s != exp_table:
                            fail('TableIsApplied', 'table_with_a_sample_of_unsorted_times', dict(holder=name, got=t_s, expected=exp_table))
            # ---- (ii) what the simulated system receives ------------------------------------
            names = model.parameters()
            x0 = {'global.xa': 0.5, 'global.xb': 0.25, 'dose.drug_amount': 0.0, 'dose.absorption_rate': 1.3, 'global.ka': 0.0}
            vals = [x0[n] for n in names]
            outs = ['global.' + target] + ([] if direct else ['dose.drug_amount'])
            model.set_outputs(outs)
            t2 = np.arange(1, 2 * rec['horizon'] + 1)
            if len(t2) == 0:
                continue
            # the doses arrive whatever else the model is asked to compute (spec: Modes): plain simulation,
            # sensitivities on, sensitivities re-selected for a subset, a reduced wrapper fixing a parameter while
            # sensitivities are on, sensitivities switched off again
            mode = MODES[int(rng.integers(len(MODES)))]
            cnt['mode_' + mode] = cnt.get('mode_' + mode, 0) + 1
            sim_model = model
            if mode in ('sens', 'reselect', 'sens_off'):
                model.enable_sensitivities(True)
            if mode == 'reselect':
                model.enable_sensitivities(True, [names[-1]])
            if mode == 'sens_off':
                model.enable_sensitivities(False)
            if mode == 'reduced_fix':
                sim_model = chi.ReducedMechanisticModel(model)
                sim_model.enable_sensitivities(True)
                sim_model.fix_parameters({names[-1]: vals[-1]})
                vals = vals[:-1]
            with warnings.catch_warnings():
                warnings.simplefilter('error', RuntimeWarning)
                sim = sim_model.simulate(vals, t2 / 2.0)
            if sim_model.has_sensitivities():
                sim = sim[0]
            cnt['evaluations'] = cnt.get('evaluations', 0) + 1
            total = sim.sum(axis=0) - x0['global.' + target]
            exp = np.array(rec['cum'], dtype=float) / rec['cumden']
            if total.shape != exp.shape or not np.allclose(total, exp, rtol=1e-7, atol=1e-7):
                fail('DeliversDoses', 'cumulative_input', dict(direct=direct, target=target, use_protocol=use_protocol, mode=mode,
                                                              got=total.tolist(), expected=exp.tolist()))
            if not direct and (np.any(sim[1] < -1e-9) or np.any(np.diff(sim[0]) < -1e-9)):
                fail('DeliversDoses', 'depot_route', dict(got=sim.tolist()))
            # the protocol the solver ran with is the regimen the model reports
            runs = [e for e in refsim.EVENTS if e['e'] == 'Run']
            if runs and runs[-1]['protocol'] != refsim.protocol_events(model.dosing_regimen()):
                fail('DeliversDoses', 'solver_protocol', dict(got=runs[-1]['protocol']))
    except Exception as e:
        fail('Evaluable', type(e).__name__, repr(e))
    finally:
        try:
            os.remove(path)
        except OSError:
            pass
    return fails, cnt
