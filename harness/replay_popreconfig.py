"""spec -> code for module PopReconfig (C17, reconfiguration histories): TLC-simulated histories of
set_n_ids / fix / release / set_dim_names / set_parameter_names on a population model are applied to
the real objects (the composite wrapped in a ReducedPopulationModel when needed); afterwards a
hierarchical log-likelihood / posterior is built and all counts, names, IDs, accepted vector length
and gradient length must agree with each other and with the numbers of the specification."""
import warnings

import numpy as np

from . import probes, interp
from .common import digest, scribble
from .replay_poplayout import build_leaf, draw_values, Reference

chi = probes.chi
import pints  # noqa: E402


def replay_case(arg):
    rec, seed = arg
    fails, cnt = [], {'cases': 1}
    key = digest(rec)
    rng = np.random.default_rng([seed, int(key, 16) % (2 ** 31)])
    hist = rec['hist']
    feats = ['ops_' + '_'.join(sorted({h[0] for h in hist}))]
    if any(m['kind'] == 'H' for m in rec['subs']):
        feats.append('has_H')
    if any(h[0] == 'nids' for h in hist) and any(h[0] == 'fix' for h in hist):
        feats.append('nids_and_fix')
    kinds = [m['kind'] for m in rec['subs']]
    if ['dimnames', 0] in [list(h) for h in hist] and len(set(kinds)) < len(kinds):
        # known finding F26: resetting the dimension names of a composition gives every sub-model its local default
        # names again, which coincide for sub-models of the same kind
        feats.append('F26_dimnames_reset_same_kind_submodels')
    for f in feats:
        cnt['feat_' + f] = 1

    def fail(clause, manifestation, detail):
        fails.append(dict(case=dict(config=rec), clause=clause, manifestation=manifestation, detail=detail, features=feats))
    try:
        with warnings.catch_warnings():
            warnings.simplefilter('error', RuntimeWarning)
            leaves = [build_leaf(m) for m in rec['subs']]
            nids = 1
            if hist and hist[0][0] == 'pre':
                # PopReconfig!RC_Pre: the leaf's own history before it is composed
                leaves[hist[0][1] // 10 - 1].set_n_ids(hist[0][1] % 10)
                nids = hist[0][1] % 10
            pop = chi.ReducedPopulationModel(chi.ComposedPopulationModel(leaves))
            fixed_now = {}
            for op, a in hist:
                if op == 'pre':
                    pass
                elif op == 'bad':
                    # PopReconfig!RC_Bad: a call chi must reject, and that must leave the model exactly as it was
                    before_ = (pop.n_parameters(), list(pop.get_parameter_names()), pop.n_hierarchical_parameters(nids),
                               list(pop.get_population_model().get_parameter_names()))
                    try:
                        if a == 1:
                            pop.set_dim_names(['D%d' % (k + 1) for k in range(rec['ndim'] + 1)])
                        elif a == 2:
                            pop.set_parameter_names(['N%d' % (k + 1) for k in range(pop.n_parameters() + 1)])
                        else:
                            pop.set_n_ids(0)
                        # accepted: whether chi rejects such a call is not a matter of C17, and the specification says nothing
                        # about the effect of an ACCEPTED call of this kind -- the history leaves the specification here
                        cnt['invalid_calls_accepted'] = cnt.get('invalid_calls_accepted', 0) + 1
                        return fails, cnt
                    except (ValueError, TypeError):
                        cnt['rejected_calls'] = cnt.get('rejected_calls', 0) + 1
                    after_ = (pop.n_parameters(), list(pop.get_parameter_names()), pop.n_hierarchical_parameters(nids),
                              list(pop.get_population_model().get_parameter_names()))
                    if after_ != before_:
                        # (what C17 demands is checked below, after every call and at the end against the specification's
                        # state, which a rejected call leaves unchanged)
                        cnt['state_changed_by_a_rejected_call'] = cnt.get('state_changed_by_a_rejected_call', 0) + 1
                elif op == 'nids':
                    pop.set_n_ids(a)
                    nids = a
                elif op in ('fix', 'release'):
                    names = pop.get_population_model().get_parameter_names()
                    pop.fix_parameters({names[a - 1]: (1.0 if op == 'fix' else None)})
                elif op == 'dimnames':
                    pop.set_dim_names(['D%d' % (k + 1) for k in range(rec['ndim'])] if a else None)
                else:
                    n_free = pop.n_parameters()
                    pop.set_parameter_names(['N%d' % (k + 1) for k in range(n_free)] if a else None)
                # after EVERY call: the model's own counts and names agree (and accessors hand out copies)
                scribble(pop)
                n = pop.n_parameters()
                nm = pop.get_parameter_names()
                nb, ntop = pop.n_hierarchical_parameters(nids)
                if len(nm) != n or ntop != n:
                    fail('Agree', 'population_model_counts', dict(after=[op, a], n_parameters=n, names=len(nm), n_top=ntop))
                    return fails, cnt
            # final state against the specification
            if pop.n_parameters() != rec['ntop']:
                fail('PL_Counts', 'n_top', dict(got=pop.n_parameters(), expected=rec['ntop'], hist=hist))
            default_naming = not rec['dimcustom'] and not rec['parcustom']
            if default_naming and list(pop.get_parameter_names()) != rec['names'][rec['nbottom']:]:
                fail('NamesIds', 'top_names', dict(got=pop.get_parameter_names(), expected=rec['names'][rec['nbottom']:]))
            if fails:
                return fails, cnt
            # build the hierarchical likelihood and check every count against every other
            lls = []
            for i in range(rec['nids']):
                t = np.array([0.5, 1.5])
                y = np.round(rng.uniform(1, 3, 2), 3)
                lls.append(chi.LogLikelihood(probes.ProbeMech(rec['ndim'] - 1, 1, tag='rc%s%d' % (key, i)),
                                             chi.GaussianErrorModel(), y, t))
            covs = np.round(rng.uniform(0, 1, size=(rec['nids'], max(rec['ncov'], 1))), 2)[:, :rec['ncov']]
            hll = chi.HierarchicalLogLikelihood(lls, pop, covs if rec['ncov'] else None)
            n = rec['nbottom'] + rec['ntop']
            obs = dict(n_parameters=int(hll.n_parameters()), names=len(hll.get_parameter_names()), ids=len(hll.get_id()),
                       n_top=int(hll.n_parameters(exclude_bottom_level=True)),
                       marked=sum(1 for i in hll.get_id() if i is not None))
            exp = dict(n_parameters=n, names=n, ids=n, n_top=rec['ntop'], marked=rec['nbottom'])
            if obs != exp:
                fail('Agree', 'hierarchical_counts', dict(got=obs, expected=exp, hist=hist))
                return fails, cnt
            if default_naming:
                if list(hll.get_parameter_names()) != rec['names'] or \
                        [('None' if i is None else i) for i in hll.get_id()] != rec['ids']:
                    fail('NamesIds', 'names_ids', dict(got=hll.get_parameter_names(), expected=rec['names']))
                wid = hll.get_parameter_names(include_ids=True)
                if len(set(wid)) != len(wid):
                    fail('UniqueDefault', 'duplicate_names', dict(names=wid))
            # a vector of the reported length is accepted and the gradient has that length
            shim = dict(rec, fixed=sorted(rec['fixed']))
            fixed_vals = {tuple(rec['topfull'][k - 1]): 1.0 for k in rec['fixed']}
            ref = Reference(shim, [(np.array([0.5, 1.5]), np.asarray(l._observations[0])) for l in lls], covs, fixed_vals)
            # a point INSIDE the support: with parameters fixed at 1 a non-centred dimension can put an individual's noise scale
            # at (or below) zero for an unlucky eta -- such draws are replaced (they say nothing about the counts)
            for attempt in range(20):
                vals = draw_values(shim, rng)
                x = np.array([vals[tuple(s)] for s in rec['layout']], dtype=float)
                with warnings.catch_warnings():
                    warnings.simplefilter('ignore')
                    try:
                        inside = bool(np.isfinite(interp.value(ref, x)))
                    except Exception:
                        inside = False
                if inside:
                    break
            else:
                cnt['no_point_inside_the_support'] = 1
                return fails, cnt
            v = hll(x)
            s, g = hll.evaluateS1(x)
            cnt['evaluations'] = 2
            if np.asarray(g).shape != (n,):
                fail('Agree', 'gradient_length', dict(got=list(np.asarray(g).shape), expected=n))
            ev = interp.value(ref, x)
            if not (interp.close(v, ev) and interp.close(s, ev)):
                fail('Denotation', 'value_after_history', dict(got=[float(v), float(s)], expected=ev, hist=hist))
    except Exception as e:
        fail('Evaluable', type(e).__name__, dict(error=repr(e), hist=hist))
    return fails, cnt
