"""Method recorders (code -> spec): public methods of chi.SBMLModel / chi.PKPDModel are wrapped at
class level from outside chi; a depth counter makes only TOP-LEVEL public calls produce Call /
Return events (nested public calls of the same family are internal steps).  The events are appended
to the same list as RefSim's solver events, so one list is one trace for Trace_MechModel.

The projection logged at every return (`rep`) uses the public getters plus the two anchored private
tables (`_simulator` -> RefSim id, `_parameter_names` / name maps) named in the properties.
"""
import functools

import myokit

from . import refsim

_depth = [0]
_installed = [False]
_mid = [0]


def _struct_of_model(model):
    has_dose = any(v.qname() == 'dose.drug_amount' for v in model.states())
    pace = any(v.binding() == 'pace' for v in model.variables(deep=True))
    return 'indirect' if has_dose else ('direct' if pace else 'none')


def _mid_of(obj):
    d = obj.__dict__
    if d.get('_verif_self') != id(obj):      # first sight, or a deep copy of a seen object
        _mid[0] += 1
        d['_verif_mid'] = _mid[0]
        d['_verif_self'] = id(obj)
        return d['_verif_mid'], True
    return d['_verif_mid'], False


def report(obj):
    adm = obj.administration() if hasattr(obj, 'administration') else None
    reg = obj.dosing_regimen() if hasattr(obj, 'dosing_regimen') else None
    sim = obj.__dict__.get('_simulator')
    pmap = obj.__dict__.get('_parameter_name_map', {})
    omap = obj.__dict__.get('_output_name_map', {})
    return dict(
        admin='none' if adm is None else ('direct' if adm['direct'] else 'indirect'),
        reg=list(refsim.protocol_events(reg)),
        outs=list(obj.__dict__.get('_output_names', [])),
        pren=sum(1 for k, v in pmap.items() if k != v and not k.startswith('dose.')),
        oren=sum(1 for k, v in omap.items() if k != v),
        sens=bool(obj.has_sensitivities()),
        sid=getattr(sim, '_sid', 0),
        tab='dose.drug_amount' in obj.__dict__.get('_parameter_names', []),
    )


def _expected_protocol(dose, start=0, duration=0.01, period=None, num=None):
    """the documented translation of a regimen into one pacing event (independent of chi)"""
    if isinstance(dose, myokit.Protocol):
        return list(refsim.protocol_events(dose))
    if num is None:
        num = 0
    if period is None:
        period, num = 0, 0
    return [(float(dose) / float(duration), float(start), float(duration), float(period), int(num))]


def _abstract_call(obj, name, args, kwargs):
    if name == 'set_administration':
        direct = kwargs.get('direct', args[2] if len(args) > 2 else True)
        return 'adm', 'direct' if direct else 'indirect'
    if name == 'set_dosing_regimen':
        try:
            return 'reg', _expected_protocol(*args, **kwargs)
        except Exception:
            return 'reg', []
    if name == 'set_outputs':
        outs = list(args[0] if args else kwargs['outputs'])
        inv = {v: k for k, v in obj.__dict__.get('_output_name_map', {}).items()}
        return 'outs', [inv.get(o, o) for o in outs]
    if name == 'enable_sensitivities':
        return 'sens', bool(args[0] if args else kwargs['enabled'])
    if name == 'set_parameter_names':
        return 'pren', 0
    if name == 'set_output_names':
        return 'oren', 0
    if name == 'simulate':
        return 'sim', 0
    if name == 'copy':
        return 'copy', 0
    raise KeyError(name)


METHODS = ['set_administration', 'set_dosing_regimen', 'set_outputs', 'enable_sensitivities',
           'set_parameter_names', 'set_output_names', 'simulate', 'copy']


def _wrap(cls, name):
    orig = cls.__dict__[name]

    @functools.wraps(orig)
    def wrapper(self, *args, **kwargs):
        if _depth[0] > 0 or not refsim.RECORD[0]:
            return orig(self, *args, **kwargs)
        m, new = _mid_of(self)
        if new:                  # an object we have not seen being constructed (e.g. deep copy of a container)
            refsim.emit('New', m=m, rep=report(self))
        op, arg = _abstract_call(self, name, args, kwargs)
        refsim.emit('Call', m=m, op=op, arg=arg)
        _depth[0] += 1
        err = False
        res = None
        try:
            res = orig(self, *args, **kwargs)
            return res
        except Exception:
            err = True
            raise
        finally:
            _depth[0] -= 1
            ev = dict(m=m, rep=report(self), err=err)
            if op == 'copy' and not err:
                m2, _ = _mid_of(res)
                ev['m2'] = m2
                ev['rep2'] = report(res)
            refsim.emit('Return', **ev)
    wrapper._verif_orig = orig
    return wrapper


def _wrap_init(cls):
    orig = cls.__dict__['__init__']

    @functools.wraps(orig)
    def init(self, *args, **kwargs):
        if _depth[0] > 0 or not refsim.RECORD[0]:
            return orig(self, *args, **kwargs)
        _depth[0] += 1
        try:
            orig(self, *args, **kwargs)
        finally:
            _depth[0] -= 1
        m, _ = _mid_of(self)
        refsim.emit('New', m=m, rep=report(self))
    init._verif_orig = orig
    return init


def install(chi):
    """Wrap the public methods of the SBML model family (idempotent)."""
    if _installed[0]:
        return
    _installed[0] = True
    for cls in (chi.SBMLModel, chi.PKPDModel):
        for name in METHODS:
            if name in cls.__dict__:
                setattr(cls, name, _wrap(cls, name))
        if '__init__' in cls.__dict__:
            setattr(cls, '__init__', _wrap_init(cls))


def uninstall(chi):
    if not _installed[0]:
        return
    _installed[0] = False
    for cls in (chi.SBMLModel, chi.PKPDModel):
        for name in METHODS + ['__init__']:
            f = cls.__dict__.get(name)
            if f is not None and hasattr(f, '_verif_orig'):
                setattr(cls, name, f._verif_orig)


# ------------------------------------------------------------------------------------------------
def abstract_trace(events):
    """Maps one recorded event list to the integer-coded trace Trace_MechModel reads: protocols and
    output selections become small ids (0 = none / default selection of the first report)."""
    prot_ids = {(): 0}
    outs_ids = {}

    def pid(p):
        key = tuple(tuple(x) for x in p)
        if key not in prot_ids:
            prot_ids[key] = len(prot_ids)
        return prot_ids[key]

    def oid(o):
        key = tuple(o)
        if key not in outs_ids:
            outs_ids[key] = len(outs_ids)
        return outs_ids[key]

    def rep(r):
        return dict(admin=r['admin'], reg=pid(r['reg']), outs=oid(r['outs']), pren=r['pren'], oren=r['oren'],
                    sens=r['sens'], sid=r['sid'], tab=r['tab'])
    out = []
    for e in events:
        k = e['e']
        if k == 'New':
            out.append(dict(e='New', m=e['m'], rep=rep(e['rep'])))
        elif k == 'Call':
            arg = e['arg']
            if e['op'] == 'reg':
                arg = pid(arg)
            elif e['op'] == 'outs':
                arg = oid(arg)
            out.append(dict(e='Call', m=e['m'], op=e['op'], arg=arg))
        elif k == 'Return':
            d = dict(e='Return', m=e['m'], rep=rep(e['rep']), err=e['err'])
            if 'm2' in e:
                d['m2'] = e['m2']
                d['rep2'] = rep(e['rep2'])
            out.append(d)
        elif k == 'NewSim':
            out.append(dict(e='NewSim', sid=e['sid'], sens=e['sens_params'] is not None, struct=e['struct'],
                            prot=pid(e['protocol'])))
        elif k == 'SetProtocol':
            out.append(dict(e='SetProtocol', sid=e['sid'], prot=pid(e['protocol'])))
        elif k == 'Run':
            out.append(dict(e='Run', sid=e['sid']))
    return out
