"""Shared plumbing of the /verif harness: paths, seed/tier handling, import of chi from CHI_SRC.

Nothing here touches DavAug/chi.  chi is imported from ``CHI_SRC`` (default /repo) so that a
check always judges the *current working tree* (or a scratch copy when testing seeded changes).
"""
import hashlib
import json
import os
import sys
import time

VERIF = os.path.dirname(os.path.dirname(os.path.abspath(__file__)))
SPEC = os.path.join(VERIF, 'spec')
WORK = os.path.join(VERIF, '.work')
EVIDENCE = os.environ.get('VERIF_EVIDENCE_DIR') or os.path.join(VERIF, 'evidence')    # (tools/try_patch.py diverts it)
REPLAYS = os.path.join(VERIF, 'replays')
DEPS = os.path.join(VERIF, '.deps')
CHI_SRC = os.environ.get('CHI_SRC', '/repo')
GUARD = 'CHI_VERIF'


class MachineryError(Exception):
    """A failure of the verification machinery itself (exit code 2), never a verdict."""


def ensure_dirs():
    for d in (WORK, EVIDENCE, REPLAYS):
        os.makedirs(d, exist_ok=True)


def import_chi():
    """Imports chi from CHI_SRC (the working tree under judgement) and returns the module."""
    os.environ[GUARD] = '1'
    src = os.path.abspath(CHI_SRC)
    if sys.path[0] != src:
        sys.path.insert(0, src)
    if os.path.isdir(DEPS) and DEPS not in sys.path:
        sys.path.append(DEPS)
    import chi  # noqa
    got = os.path.dirname(os.path.dirname(os.path.abspath(chi.__file__)))
    if got != src:
        raise MachineryError('chi imported from %s, expected %s' % (got, src))
    return chi


def seed_from_env(default=0):
    try:
        return int(os.environ.get('VERIF_SEED', default))
    except ValueError:
        return default


def digest(obj):
    return hashlib.sha1(json.dumps(obj, sort_keys=True, default=str).encode()).hexdigest()[:12]


class Timer(object):
    def __init__(self):
        self.t0 = time.time()

    def wall(self):
        return round(time.time() - self.t0, 3)


def jdump(obj, path):
    tmp = path + '.tmp'
    with open(tmp, 'w') as f:
        json.dump(obj, f, indent=1, sort_keys=True, default=_default)
        f.write('\n')
    os.replace(tmp, path)


def _default(o):
    try:
        import numpy as np
        if isinstance(o, np.ndarray):
            return o.tolist()
        if isinstance(o, (np.integer,)):
            return int(o)
        if isinstance(o, (np.floating,)):
            return float(o)
        if isinstance(o, (np.bool_,)):
            return bool(o)
    except Exception:
        pass
    if isinstance(o, (set, frozenset)):
        return sorted(o, key=str)
    if isinstance(o, tuple):
        return list(o)
    return str(o)


ACCESSORS = ('get_parameter_names', 'parameters', 'outputs', 'get_id', 'get_dim_names', 'get_covariate_names',
             'get_output_names', 'get_submodels')


def _scribble_value(r):
    import numpy as _np
    if isinstance(r, list):
        for x in r:
            _scribble_value(x) if isinstance(x, (list, dict, _np.ndarray)) else None
        r.append('scribbled by the caller')
        if len(r) > 1:
            r[0] = 'scribbled too'
        return 1
    if isinstance(r, dict):
        r.clear()
        r['scribbled by the caller'] = None
        return 1
    if isinstance(r, tuple):
        return sum(_scribble_value(x) for x in r)
    if isinstance(r, _np.ndarray) and r.size and r.flags.writeable and r.dtype.kind in 'fiub':
        r[...] = r.max() + 7 if r.dtype.kind != 'b' else ~r
        return 1
    return 0


def scribble(obj, names=None):
    """Accessors are stuttering steps of every specification: they return information and leave the object alone.
    Calls every argument-free accessor the object has (get_*, parameters, outputs; or the given names) and SCRIBBLES over
    whatever list, dict or array it returns, as a caller is free to do; an accessor that hands out internal state is
    exposed by the literal comparisons that follow.  Returned model objects are left alone (handing out a sub-model is
    the documented purpose of those getters)."""
    import inspect
    if names is None:
        names = [a for a in dir(obj) if (a.startswith('get_') or a in ('parameters', 'outputs', 'administration'))
                 and a not in ('get_log_posterior', 'get_predictive_model', 'get_dosing_regimen')]
    n = 0
    for a in names:
        f = getattr(obj, a, None)
        if f is None or not callable(f):
            continue
        try:
            sig = inspect.signature(f)
            if any(p.default is inspect.Parameter.empty and p.kind in (p.POSITIONAL_ONLY, p.POSITIONAL_OR_KEYWORD)
                   for p in sig.parameters.values()):
                continue
            r = f()
        except Exception:
            continue
        n += _scribble_value(r)
    return n
