"""pytest plugin (code -> spec, module Trace_Counts, property C17): wraps every public method of every chi class
that reports parameter names; after each TOP-LEVEL public call the counts the object reports are logged.  The
repository's own test suite, run on RefSim, is the driver; one trace per test class goes to $VERIF_TRACE_OUT."""
import functools
import inspect
import json
import os
import sys

sys.path.insert(0, os.path.dirname(os.path.dirname(os.path.abspath(__file__))))
from harness import refsim  # noqa: E402

refsim.install()
import chi  # noqa: E402
import chi.plots  # noqa: E402

_depth = [0]
_events = []
_traces = []
_state = {'cls': None}
_oid = [0]


def _oid_of(obj):
    d = getattr(obj, '__dict__', None)
    if d is None:
        return 0
    if d.get('_verif_self') != id(obj):
        _oid[0] += 1
        d['_verif_oid'] = _oid[0]
        d['_verif_self'] = id(obj)
    return d['_verif_oid']


def _names(obj, **kw):
    f = getattr(obj, 'get_parameter_names', None) or getattr(obj, 'parameters', None)
    return len(f(**kw))


def _count(obj, **kw):
    f = getattr(obj, 'n_parameters', None) or getattr(obj, 'get_n_parameters', None)
    return int(f(**kw))


def _parts(obj, depth=0):
    """identities of the model objects this object is built from (composites hold references to their parts)"""
    out = []
    d = getattr(obj, '__dict__', {})
    cand = []
    for k in ('_population_models', '_error_models', '_log_likelihoods', '_predictive_models'):
        cand += list(d.get(k) or [])
    for k in ('_population_model', '_mechanistic_model', '_error_model', '_covariate_model', '_log_likelihood',
              '_predictive_model', '_filter'):
        if d.get(k) is not None:
            cand.append(d[k])
    for c in cand:
        if hasattr(c, '__dict__'):
            out.append(_oid_of(c))
            if depth < 3:
                out += _parts(c, depth + 1)
    return sorted(set(out))


MUTATORS = ('__init__', 'set_', 'fix_', 'enable_', 'sort_')


def _observe(obj, op, err):
    try:
        n, nn = _count(obj), _names(obj)
    except Exception:
        return                    # the object cannot report yet (half-constructed, or data not set)
    nids = ntop = ntopn = -1
    try:
        if hasattr(obj, 'get_id') and 'Hierarchical' in type(obj).__name__ or 'PopulationFilterLogPosterior' in type(obj).__name__:
            nids = len(obj.get_id())
            ntop, ntopn = _count(obj, exclude_bottom_level=True), _names(obj, exclude_bottom_level=True)
    except Exception:
        nids = ntop = ntopn = -1
    _events.append(dict(cls=type(obj).__name__, obj=_oid_of(obj), op=op, err=bool(err), n=n, nnames=nn, nids=nids,
                        ntop=ntop, ntopnames=ntopn, parts=_parts(obj), mut=op.startswith(MUTATORS)))


def _wrap(cls, name):
    orig = cls.__dict__[name]

    @functools.wraps(orig)
    def wrapper(self, *args, **kwargs):
        if _depth[0] > 0:
            return orig(self, *args, **kwargs)
        _depth[0] += 1
        err = False
        try:
            return orig(self, *args, **kwargs)
        except Exception:
            err = True
            raise
        finally:
            try:
                _observe(self, name, err)
            finally:
                _depth[0] -= 1
    return wrapper


def _install():
    n = 0
    for _, cls in inspect.getmembers(chi, inspect.isclass):
        if not cls.__module__.startswith('chi'):
            continue
        if not (hasattr(cls, 'get_parameter_names') or hasattr(cls, 'parameters')):
            continue
        for name, f in list(cls.__dict__.items()):
            if (name.startswith('_') and name != '__init__') or not inspect.isfunction(f):
                continue
            setattr(cls, name, _wrap(cls, name))
            n += 1
    return n


_install()


def _flush():
    if _events and _state['cls'] is not None:
        _traces.append(dict(name=_state['cls'], trace=list(_events)))
    del _events[:]


def pytest_runtest_protocol(item, nextitem):
    cls = '%s::%s' % (item.module.__name__, item.cls.__name__ if item.cls else '-')
    if cls != _state['cls']:
        _flush()
        _state['cls'] = cls
    return None


def pytest_sessionfinish(session, exitstatus):
    _flush()
    out = os.environ.get('VERIF_TRACE_OUT')
    if out:
        with open(out, 'w') as f:
            json.dump(_traces, f)
