"""C09 -- simulation returns the ODE solution and its derivatives in parameter order (module SBMLOrder)."""
import json
import warnings

import numpy as np

from . import tlc
from .cache import cached
from .common import MachineryError
from .verdict import Verdict, pmap

PROP = 'C09'
ASSUME = [
    'RefSim (harness/refsim.py: generated Python RHS, LSODA rtol 1e-10, complex-step forward sensitivities, myokit '
    'PacingSystem) stands in for myokit.Simulation / CVODES, which cannot be built here; it honours the calls chi '
    'makes (reset, set_state, set_constant, set_protocol, run, sensitivity request) and records them',
    'generated models: linear chains over 1..4 states and 1..3 literal constants plus one derived constant and one '
    'intermediate variable, declared in every order; closed form by matrix exponential, derivatives by complex step',
    'library models are compared with the equations typed from the ModelLibrary docstrings, integrated independently',
]


def library_cases(seed):
    """The shipped models against their documented equations."""
    from . import replay_sbmlorder  # installs RefSim, imports chi
    from scipy.integrate import solve_ivp
    import chi.library
    chi = replay_sbmlorder.chi
    lib = chi.library.ModelLibrary()
    rng = np.random.default_rng(seed)
    fails = []

    def documented(name, p):
        if name == 'one_compartment_pk_model':
            return (['central.drug_amount'],
                    lambda t, y: [-p['global.elimination_rate'] * y[0]],
                    {'central.drug_concentration': lambda y: y[0] / p['central.size'], 'central.drug_amount': lambda y: y[0]})
        if name == 'tumour_growth_inhibition_model_koch':
            l0, l1, ka, c = p['global.lambda_0'], p['global.lambda_1'], p['global.kappa'], p['global.drug_concentration']
            return (['global.tumour_volume'],
                    lambda t, y: [2 * l0 * l1 * y[0] / (2 * l0 * y[0] + l1) - ka * c * y[0]],
                    {'global.tumour_volume': lambda y: y[0]})
        if name == 'tumour_growth_inhibition_model_koch_reparametrised':
            lam, vc, ka, c = p['global.lambda'], p['global.critical_volume'], p['global.kappa'], p['global.drug_concentration']
            return (['global.tumour_volume'],
                    lambda t, y: [lam * y[0] / (y[0] / vc + 1) - ka * c * y[0]],
                    {'global.tumour_volume': lambda y: y[0]})
        lam, vc, ka, ke, v = p['global.lambda'], p['global.critical_volume'], p['global.kappa'], \
            p['global.elimination_rate'], p['central.size']
        return (['central.drug_amount', 'global.tumour_volume'],
                lambda t, y: [-ke * y[0], lam * y[1] / (y[1] / vc + 1) - ka * (y[0] / v) * y[1]],
                {'central.drug_amount': lambda y: y[0], 'global.tumour_volume': lambda y: y[1],
                 'central.drug_concentration': lambda y: y[0] / v})
    n = 0
    for name in ['one_compartment_pk_model', 'tumour_growth_inhibition_model_koch',
                 'tumour_growth_inhibition_model_koch_reparametrised', 'erlotinib_tumour_growth_inhibition_model']:
        for rep in range(3):
            model = getattr(lib, name)()
            names = model.parameters()
            vals = np.round(rng.uniform(0.3, 1.7, size=len(names)), 3)
            p = dict(zip(names, vals))
            states, rhs, obs = documented(name, p)
            times = np.array([0.3, 1.0, 2.2, 4.0])
            sol = solve_ivp(rhs, (0, times[-1]), [p[s] for s in states], method='LSODA', rtol=1e-11, atol=1e-13,
                            t_eval=times)
            with warnings.catch_warnings():
                warnings.simplefilter('error', RuntimeWarning)
                out = model.simulate(vals, times)
            exp = np.array([[obs[o](sol.y[:, j]) for j in range(len(times))] for o in model.outputs()])
            n += 1
            if out.shape != exp.shape or not np.allclose(out, exp, rtol=1e-6, atol=1e-9):
                fails.append(dict(case=dict(config=dict(library_model=name, values=vals.tolist())), clause='Library',
                                  manifestation='documented_equations',
                                  detail=dict(got=np.asarray(out).tolist(), expected=exp.tolist()), features=['library']))
    return fails, n


def _compute(tier, seed):
    r = tlc.run('SBMLOrder', 'SBMLOrder_%s.cfg' % tier)
    try:
        tlc.run('SBMLOrder', 'SBMLOrder_mutant.cfg', want_records=False)
        raise MachineryError('negative control failed: single-argsort variant not refuted')
    except tlc.SpecViolation as e:
        if e.res.violated != 'StateAssignmentOK':
            raise MachineryError('mutant variant refuted on %s' % e.res.violated)
    from . import replay_sbmlorder
    recs = list(r.records)
    if tier == 'quick':
        # three selected outputs (three states, one constant, nothing fixed)
        seen = {json.dumps(x, sort_keys=True) for x in recs}
        recs += [x for x in tlc.run('SBMLOrder', 'SBMLOrder_quick3.cfg').records
                 if len(x['outs']) == 3 and json.dumps(x, sort_keys=True) not in seen]
    results = pmap(replay_sbmlorder.replay_case, [(rec, seed) for rec in recs])
    lib_fails, nlib = library_cases(seed)
    return dict(run=r.summary(), records=recs, results=results, lib=(lib_fails, nlib))


def run(tier, seed):
    v = Verdict(PROP, tier, seed)
    out = cached('sbmlorder', tier, seed, lambda: _compute(tier, seed))
    for fails, cnt in out['results']:
        v.failures(fails)
        v.merge_counters(cnt)
    v.failures(out['lib'][0])
    v.counters['library_model_simulations'] = out['lib'][1]
    recs = out['records']
    for rec in recs[:1] + recs[len(recs) // 2:len(recs) // 2 + 1] + recs[-1:]:
        v.sample(rec)
    nt = v.counters.get('feat_declaration_not_alphabetical', 0)
    if nt == 0 or v.counters.get('feat_permutation_not_involution', 0) == 0:
        v.vacuous('vacuous run: no non-involutive declaration order')
    cov = dict(states=out['run']['states'], transitions=out['run']['transitions'],
               traces_validated_against_impl=len(recs) + out['lib'][1], evaluations=v.counters.get('evaluations', 0),
               distinct_nontrivial=nt, exhaustive=True,
               rule='TLC enumerates every declaration order of the states and constants x ordered output selections x '
                    'fixed subsets; one generated SBML model per configuration; non-trivial = declaration order differs '
                    'from the alphabetical order (%d of them are not involutions, where a single argsort would differ)'
                    % v.counters.get('feat_permutation_not_involution', 0),
               tlc_runs=[out['run']],
               spec_negative_control='SBMLOrder_mutant.cfg (single argsort) refuted by TLC on StateAssignmentOK')
    return v.finish('model_checking', cov, ASSUME)


def replay(path):
    rep = json.load(open(path))
    cfg = rep['case']['config']
    if 'library_model' in cfg:
        fails, _ = library_cases(rep['seed'])
    else:
        from . import replay_sbmlorder
        fails, _ = replay_sbmlorder.replay_case((cfg, rep['seed']))
    for f in fails:
        print('VIOLATION property=%s replay=%s' % (PROP, path))
        print('  clause=%s manifestation=%s detail=%s' % (f['clause'], f['manifestation'], str(f['detail'])[:400]))
        return 1
    print('replay passes')
    return 0
