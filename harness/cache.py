"""Content-addressed cache of expensive replay runs shared by several properties.

The key covers every file the result depends on: all chi sources under CHI_SRC, every harness and
specification file, the tier and the seed.  A change to any of them (including any edit of the tree
under judgement) misses the cache, so a cached result is always a result for the current tree."""
import hashlib
import os
import pickle

from .common import CHI_SRC, VERIF, WORK


def _tree_hash(roots):
    h = hashlib.sha1()
    for root in roots:
        for dp, dn, fn in sorted(os.walk(root)):
            dn.sort()
            if '__pycache__' in dp or '/tests' in dp:
                continue
            for f in sorted(fn):
                if f.endswith(('.py', '.tla', '.cfg', '.xml', '.csv', '.json')):
                    p = os.path.join(dp, f)
                    h.update(p.encode())
                    with open(p, 'rb') as fh:
                        h.update(fh.read())
    return h.hexdigest()


def cached(name, tier, seed, compute):
    if os.environ.get('VERIF_NOCACHE'):
        return compute()
    key = hashlib.sha1(('%s|%s|%s|%s' % (name, tier, seed, _tree_hash(
        [os.path.join(CHI_SRC, 'chi'), os.path.join(VERIF, 'harness'), os.path.join(VERIF, 'spec')]))).encode()).hexdigest()
    d = os.path.join(WORK, 'cache')
    os.makedirs(d, exist_ok=True)
    path = os.path.join(d, '%s-%s.pkl' % (name, key[:16]))
    if os.path.exists(path):
        try:
            with open(path, 'rb') as f:
                return pickle.load(f)
        except Exception:
            pass
    val = compute()
    # keep the cache small: drop older entries of the same name
    for f in os.listdir(d):
        if f.startswith(name + '-') and f.endswith('.pkl') and os.path.join(d, f) != path:
            try:
                os.remove(os.path.join(d, f))
            except OSError:
                pass
    tmp = '%s.%d.tmp' % (path, os.getpid())        # (two checks sharing a run may finish at the same time)
    with open(tmp, 'wb') as f:
        pickle.dump(val, f)
    try:
        os.replace(tmp, path)
    except OSError:          # the cache is an optimisation only
        pass
    return val
