"""C20 -- figures faithfully render the supplied data and prediction bands (module Plots)."""
import json

from . import tlc
from .cache import cached
from .common import MachineryError, digest
from .verdict import Verdict, pmap

PROP = 'C20'
ASSUME = [
    'figures are inspected through the plotly figure objects (x / y arrays of the traces), not rendered pixels',
    'band limits are judged against the property itself in exact rational arithmetic (limits are samples, enclosed fraction >= '
    'p, nesting); equality with the exact rank rule of the specification is required except when a sample sits exactly on a '
    'percentile threshold, where the floating-point comparison in chi may decide either way',
    'routing: ids numeric (the PD figures format them with %d), alternative column keys, an extra column, rows without observable',
]


def _compute(tier, seed):
    rb = tlc.run('Plots', 'Plots_bands_%s.cfg' % tier)
    rr = tlc.run('Plots', 'Plots_routing_%s.cfg' % tier)
    bands, routing = rb.records, rr.records
    if tier == 'thorough':
        bands = [x for x in bands if len(x['v']) < 7 or int(digest(x), 16) % 4 == seed % 4]
        routing = [x for x in routing if len(x['rows']) < 3 or int(digest(x), 16) % 40 == seed % 40]
    else:
        routing = [x for x in routing if len(x['rows']) < 2 or int(digest(x), 16) % 3 == seed % 3]
    from . import replay_plots
    # beyond the bound TLC enumerates: the invariants Encloses / Nested / "limits are samples" of module Plots evaluated (in
    # exact rational arithmetic) on the figure's output for LARGE sets of distinct samples -- the rank grid 1/n is then finer
    # than the second decimal of the tail percentiles (1/40, 1/200, 1/400) of the specification's bulk probabilities
    import random
    for n_large in (101, 200, 333, 1000):
        codes = list(range(1, n_large + 1))
        random.Random(1000 * seed + n_large).shuffle(codes)
        bands.append(dict(mode='bands', v=codes, large=True,
                          bands=[dict(num=b['num'], den=b['den'], boundary=True) for b in bands[0]['bands']]))
    res = pmap(replay_plots.replay_bands, [(rec, seed) for rec in bands]) + \
        pmap(replay_plots.replay_routing, [(rec, seed) for rec in routing])
    return dict(runs=[rb.summary(), rr.summary()], n=len(bands) + len(routing), results=res,
                residual=replay_plots.residual_checks(seed) + replay_plots.cohort_checks(seed), samples=[bands[len(bands) // 2], routing[len(routing) // 2]])


def run(tier, seed):
    v = Verdict(PROP, tier, seed)
    out = cached('plots', tier, seed, lambda: _compute(tier, seed))
    for fails, cnt in out['results']:
        v.failures(fails)
        v.merge_counters(cnt)
    for clause, man, detail in out['residual']:
        v.failure(dict(case=dict(figure='ResidualPlot'), clause=clause, manifestation=man, detail=detail, features=['residual']))
    for s in out['samples']:
        v.sample(s)
    nt = v.counters.get('feat_ties', 0) + v.counters.get('feat_several_individuals', 0)
    if nt == 0 or v.counters.get('feat_boundary', 0) == 0 or v.counters.get('feat_large_sample', 0) == 0:
        v.vacuous('vacuous run')
    cov = dict(states=sum(r['states'] for r in out['runs']), transitions=sum(r['transitions'] for r in out['runs']),
               traces_validated_against_impl=out['n'], evaluations=v.counters.get('evaluations', 0), distinct_nontrivial=nt,
               exhaustive=(tier == 'quick'),
               rule='bands: every sample sequence of length <= 5 (7) over 4 values x 6 bulk probabilities, plotted at two time '
                    'points on the PD and PK predictive figures, plus 4 seeded sets of 101 to 1000 distinct samples (invariants evaluated on '
                    'the output); routing: every sequence of <= 2 (3) rows over 2 individuals x 3 '
                    'observable states x 2 times x 2 values x dose / none, on the four time-series figures; non-trivial = ties '
                    'among the samples resp. several individuals',
               tlc_runs=out['runs'])
    return v.finish('model_checking', cov, ASSUME)


def replay(path):
    from . import replay_plots
    rep = json.load(open(path))
    cfg = rep['case'].get('config')
    if cfg is None:
        return run('quick', rep['seed'])
    fn = replay_plots.replay_bands if cfg.get('mode') == 'bands' else replay_plots.replay_routing
    fails, _ = fn((cfg, rep['seed']))
    for f in fails:
        print('VIOLATION property=%s replay=%s' % (PROP, path))
        print('  clause=%s manifestation=%s detail=%s' % (f['clause'], f['manifestation'], str(f['detail'])[:400]))
        return 1
    print('replay passes')
    return 0
