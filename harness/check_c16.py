"""C16 -- seeds fully determine random results; random streams are independent (module RandomStreams)."""
import json

from . import tlc
from .cache import cached
from .common import MachineryError
from .verdict import Verdict

PROP = 'C16'
ASSUME = [
    'NumPy / SciPy primitives are trusted to produce the variates of their generator; a stream is identified by its key '
    '(integer seed, fresh entropy, global generator seeded or not) and position, so two generator objects made from the '
    'same integer seed consume the SAME variates',
    'no statistical test is used: independence is decided on variate provenance, reproducibility on provenance plus '
    'bitwise equality of real results',
    'different seeds / a generator passed twice are required to give different results only for samplers with '
    'continuous outcomes (finitely many outcomes may coincide by chance)',
]


def _compute(tier, seed):
    runs = []
    ok = {}
    for d, expect in (('thread', None), ('globalseeded', None), ('reseed', 'Independent'), ('global', 'Reproducible')):
        try:
            r = tlc.run('RandomStreams', 'RandomStreams_%s.cfg' % d, want_records=False)
            runs.append(r.summary())
            if expect is not None:
                raise MachineryError('design %s should violate %s' % (d, expect))
        except tlc.SpecViolation as e:
            if e.res.violated != expect:
                raise MachineryError('design %s violates %s, expected %s' % (d, e.res.violated, expect))
            ok[d] = e.res.violated
    from . import replay_randomstreams as rr, validate_traces
    E = rr.eps()
    traces, meta = [], []
    for i, ep in enumerate(E):
        for sk in ('int', 'int:zero', 'int:np', 'none', 'gen'):
            if sk == 'gen' and not ep['gen_ok']:
                continue
            t, err = rr.record_trace(i, sk)
            traces.append(t)
            meta.append((ep['name'], sk, err))
    vres, verdicts = validate_traces.validate_streams(traces, tag='c16')
    # binding control: duplicate a Draw event (a second generator with the same key) -> Independent must fail
    ctrl = None
    for t in traces:
        d = [e for e in t if e['e'] == 'Draw']
        if d and t[0]['seed_kind'] == 'int':
            bad = t + [dict(d[0])]
            _, cv = validate_traces.validate_streams([bad], tag='c16ctrl')
            ctrl = cv[0]
            break
    if ctrl is None or not ctrl['clause'].startswith('Independent'):
        raise MachineryError('binding control failed: %r' % (ctrl,))
    patterns = [(ep['name'], rr.pattern_case(i)) for i, ep in enumerate(E)]
    patterns.append(('within-call independence of chosen individuals', rr.within_call_independence()))
    patterns.append(('unseeded sampling of copies of one error model', rr.unseeded_copies_independence()))
    return dict(runs=runs, refuted=ok, meta=meta, verdicts=verdicts, patterns=patterns, trace_run=vres.summary(),
                samples=[dict(entry=meta[0][0], seed=meta[0][1], trace=traces[0]),
                         dict(entry=meta[-1][0], seed=meta[-1][1], trace=traces[-1][:12])],
                nevents=sum(len(t) for t in traces), ctrl=ctrl)


def run(tier, seed):
    v = Verdict(PROP, tier, seed)
    out = cached('randomstreams', tier, seed, lambda: _compute(tier, seed))
    for (name, sk, err), vd in zip(out['meta'], out['verdicts']):
        feats = ['entry:' + name, 'seed:' + sk]
        if err:
            v.failure(dict(case=dict(entry=name, seed_kind=sk), clause='Evaluable', manifestation='exception', detail=err,
                           features=feats))
        if vd['clause']:
            v.failure(dict(case=dict(entry=name, seed_kind=sk), clause=vd['clause'].split(':')[0],
                           manifestation=vd['clause'].split(':')[1], detail=vd, features=feats))
    for name, ps in out['patterns']:
        for clause, man, detail in ps:
            v.failure(dict(case=dict(entry=name, history='real generators'), clause=clause, manifestation=man, detail=detail,
                           features=['entry:' + name, 'pattern']))
    for s in out['samples']:
        v.sample(s)
    n = len(out['meta'])
    cov = dict(states=sum(r['states'] for r in out['runs']) + out['trace_run']['states'],
               transitions=sum(r['transitions'] for r in out['runs']) + out['trace_run']['transitions'],
               traces_validated_against_impl=n, evaluations=n + 5 * len(out['patterns']),
               distinct_nontrivial=sum(1 for m in out['meta'] if m[1] != 'none'), exhaustive=False,
               rule='every sampling entry point (%d) x seed argument kind (int, the int 0, a NumPy int, None, Generator): recorded generator events '
                    'validated against Trace_RandomStreams; plus equality patterns with the real generators (same seed twice '
                    'around global-generator perturbations and an unrelated call, two seeds, a generator passed twice); '
                    'non-trivial = a seeded or generator call' % len(out['patterns']),
               entry_points=[p[0] for p in out['patterns']], trace_events=out['nevents'],
               spec_negative_controls=out['refuted'],
               binding_control='trace with a duplicated Draw rejected: %s' % out['ctrl']['clause'])
    return v.finish('model_checking', cov, ASSUME)


def replay(path):
    print('C16 failures are re-validated by re-running the check: ./check C16')
    return run('quick', 0)
