"""C15 -- predictive models sample the stated generative process, correctly labelled (module Predictive)."""
import json

from . import tlc
from .cache import cached
from .common import MachineryError
from .verdict import Verdict, pmap

PROP = 'C15'
ASSUME = [
    'labels are compared literally with the sequence the specification lists (multiset for the averaged model, whose blocks '
    'follow its member models); dose rows with the table of module Dosing for the fixed regimen used here',
    'posterior datasets carry integer codes (parameter, chain, draw, individual), so a parameter vector that reaches the '
    'mechanistic model shows its provenance; ProbeMech records the vectors; with a dosing regimen a PKPD model on RefSim is used',
    'population-predictive individuals are identified under scripted generators with integer population parameters and their '
    'laws checked by TLC (SampleAlgebra); the measurement stage is identified with the first stage held fixed and compared '
    'numerically (1e-12) with the error-model law around the mechanistic output; NumPy primitives trusted',
    'posterior / averaged provenance: 1200 samples each from a coded 3 chains x 4 draws x 3 individuals posterior; every row must '
    'be drawn and the counts pass chi-square / binomial tests at level 1e-9 against Predictive!PosteriorLaw / AveragedLaw '
    '(structural errors are rejected, sampling noise is not)',
    'the population model is put through set_n_ids(2) before sampling with 1-3 samples (a likelihood or controller would do so)',
]


def _compute(tier, seed):
    r = tlc.run('Predictive', 'Predictive_%s.cfg' % tier)
    recs = r.records
    if tier == 'quick':
        # three outputs (two times, two samples): the per-output loops and offsets only show beyond two outputs
        seen = {json.dumps(x, sort_keys=True) for x in recs}
        recs = recs + [x for x in tlc.run('Predictive', 'Predictive_quick3.cfg').records if json.dumps(x, sort_keys=True) not in seen]
    if tier == 'thorough':
        recs = [x for i, x in enumerate(recs) if len(x['times']) < 4 or i % 4 == seed % 4]
    # two covariates (one output, two times; both tiers): the covariate rows of the population table need two covariates AND
    # two samples to show a mix-up
    seen = {json.dumps(x, sort_keys=True) for x in recs}
    recs = recs + [x for x in tlc.run('Predictive', 'Predictive_quick2cov.cfg').records
                   if x['ncov'] == 2 and x['kind'] == 'population' and json.dumps(x, sort_keys=True) not in seen]
    from . import replay_predictive, validate_traces
    results = pmap(replay_predictive.replay_case, [(rec, seed) for rec in recs])
    stage1 = replay_predictive.population_stage_records(seed)
    errs = [x for x in stage1 if 'error' in x]
    good = [x for x in stage1 if 'error' not in x]
    sres, sverd = validate_traces.validate_samples(good, tag='c15') if good else (None, [])
    stage2 = replay_predictive.measurement_stage_checks(seed)
    stage3 = replay_predictive.posterior_law_checks(seed)
    return dict(run=r.summary(), n=len(recs), results=results, stage1=[(g['name'], v) for g, v in zip(good, sverd)],
                stage1_errors=errs, stage2=stage2, stage3=stage3, samples=[recs[len(recs) // 3], recs[-1]],
                srun=sres.summary() if sres else None)


def run(tier, seed):
    v = Verdict(PROP, tier, seed)
    out = cached('predictive', tier, seed, lambda: _compute(tier, seed))
    for fails, cnt in out['results']:
        v.failures(fails)
        v.merge_counters(cnt)
    for e in out['stage1_errors']:
        v.failure(dict(case=dict(sampler=e['name']), clause='Evaluable', manifestation='exception', detail=e['error'],
                       features=['population_stage']))
    und = 0
    for name, vd in out['stage1']:
        und += vd['undecided']
        if vd['clause']:
            v.failure(dict(case=dict(sampler=name), clause=vd['clause'], manifestation='law_mismatch', detail=vd,
                           features=['population_stage']))
    if und:
        raise MachineryError('%d population-stage cells could not be identified (form outside the sample algebra)' % und)
    for clause, man, detail in out['stage2']:
        v.failure(dict(case=dict(stage='measurement'), clause=clause, manifestation=man, detail=detail, features=['measurement_stage']))
    for clause, man, detail in out['stage3']:
        v.failure(dict(case=dict(stage='posterior_law'), clause=clause, manifestation=man, detail=detail, features=['posterior_law']))
    v.count('posterior_law_samples', 2400)
    for s in out['samples']:
        v.sample({k: s[k] for k in ('kind', 'nout', 'times', 'sorted', 'nsamp', 'ncov', 'regimen', 'labels')})
    nt = v.counters.get('feat_unsorted_times', 0)
    if nt == 0 or v.counters.get('feat_repeated_times', 0) == 0:
        v.vacuous('vacuous run')
    cov = dict(states=out['run']['states'] + (out['srun']['states'] if out['srun'] else 0),
               transitions=out['run']['transitions'] + (out['srun']['transitions'] if out['srun'] else 0),
               traces_validated_against_impl=out['n'] + len(out['stage1']), evaluations=v.counters.get('evaluations', 0),
               distinct_nontrivial=nt, exhaustive=(tier == 'quick'),
               rule='TLC enumerates model kind (5) x outputs x requested time sequences (unsorted, with repeats) x sample size x '
                    'covariates x regimen flag; every request executed; non-trivial = requested times not sorted',
               population_stage_calls=len(out['stage1']), undecided_cells=und, tlc_runs=[out['run']])
    return v.finish('model_checking', cov, ASSUME)


def replay(path):
    from . import replay_predictive
    rep = json.load(open(path))
    if 'config' not in rep['case']:
        return run('quick', rep['seed'])
    fails, _ = replay_predictive.replay_case((rep['case']['config'], rep['seed']))
    for f in fails:
        print('VIOLATION property=%s replay=%s' % (PROP, path))
        print('  clause=%s manifestation=%s detail=%s' % (f['clause'], f['manifestation'], str(f['detail'])[:400]))
        return 1
    print('replay passes')
    return 0
