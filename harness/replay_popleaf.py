"""spec -> code for module PopLeaf (C05): every (kind, centred, nDim, nIds, layout, return form,
upstream) TLC enumerates is run through the real leaf population model and compared with the
documented density / transform and their exact derivatives, and the results of the three parameter
layouts are required to coincide."""
import warnings

import numpy as np

from . import interp, probes
from .common import scribble, digest
from .replay_poplayout import KIND_CLASS

chi = probes.chi


def features(rec):
    f = ['kind_' + rec['kind'], 'layout_' + rec['layout'], 'form_' + rec['form']]
    if not rec['cen']:
        f.append('noncentred')
    if rec['ndim'] > 1:
        f.append('multidim')
    if rec['layout'] == 'matrix' and rec['kind'] == 'G' and not rec['cen']:
        f.append('F3_gauss_noncentred_matrix')
    if rec['layout'] == 'matrix' and rec['kind'] == 'LN' and not rec['cen']:
        f.append('F3_lognormal_noncentred_matrix')
    if rec['layout'] == 'matrix' and rec['kind'] == 'LN':
        f.append('F3_lognormal_matrix')
    if rec['upstream']:
        f.append('upstream')
    return f


def make_model(rec):
    cls = getattr(chi, KIND_CLASS[rec['kind']])
    if rec['kind'] in ('G', 'LN'):
        m = cls(n_dim=rec['ndim'], centered=rec['cen'])
    else:
        m = cls(n_dim=rec['ndim'])
    m.set_n_ids(rec['nids'])
    return m


def draw(rec, rng, per_individual):
    """V[i][p][d] (identical across i unless per_individual), eta[i][d], upstream w[i][d]"""
    k, nd, ni, nper = rec['kind'], rec['ndim'], rec['nids'], rec['nper']
    def one():
        V = np.zeros((nper, nd))
        if k in ('P', 'H'):
            V[:] = np.round(rng.uniform(0.6, 1.8, size=(nper, nd)), 3)
        elif k == 'LN':
            V[0] = np.round(rng.uniform(-0.2, 0.3, size=nd), 3)
            V[1] = np.round(rng.uniform(0.3, 0.6, size=nd), 3)
        else:
            V[0] = np.round(rng.uniform(1.0, 1.5, size=nd), 3)
            V[1] = np.round(rng.uniform(0.3, 0.6, size=nd), 3)
            # locations are REAL numbers: the mean of a (truncated) Gaussian may be negative or exactly zero (the half-normal)
            if int(digest(rec), 16) % 3 == 0:
                V[0, 0] = 0.0 if int(digest(rec), 16) % 2 else -round(float(rng.uniform(0.1, 0.5)), 3)
        return V
    if per_individual:
        Vi = np.array([one() for _ in range(ni)])
    else:
        Vi = np.array([one()] * ni)
    if k == 'P':
        eta = Vi[:, 0, :].copy()
    elif k == 'H':
        eta = np.array([Vi[i, i, :] for i in range(ni)])
    elif rec['cen']:
        eta = np.round(rng.uniform(0.6, 1.8, size=(ni, nd)), 3)
    else:
        eta = np.round(rng.uniform(-1.0, 1.0, size=(ni, nd)), 3)
    w = np.round(rng.uniform(-1.0, 1.0, size=(ni, nd)), 3)
    return Vi, eta, w


def dens_i(rec, eta_i, V_i, i):
    k = rec['kind']
    tot = 0.0
    for d in range(rec['ndim']):
        if k in ('P', 'H'):
            continue
        if not rec['cen']:
            tot = tot + interp.std_normal(eta_i[d])
        elif k == 'G':
            tot = tot + interp.pop_gauss(eta_i[d], V_i[0][d], V_i[1][d])
        elif k == 'LN':
            tot = tot + interp.pop_lognormal(eta_i[d], V_i[0][d], V_i[1][d])
        else:
            tot = tot + interp.pop_truncgauss(eta_i[d], V_i[0][d], V_i[1][d])
    return tot


def psi_i(rec, eta_i, V_i, i):
    k = rec['kind']
    out = []
    for d in range(rec['ndim']):
        if k == 'P':
            out.append(V_i[0][d])
        elif k == 'H':
            out.append(V_i[i][d])
        elif rec['cen']:
            out.append(eta_i[d])
        elif k == 'G':
            out.append(V_i[0][d] + V_i[1][d] * eta_i[d])
        else:
            out.append(np.exp(V_i[0][d] + V_i[1][d] * eta_i[d]))
    return out


def reference(rec, Vi, eta, w, use_w):
    """value, psi, and per-individual derivatives E[i][d], D[i][p][d]"""
    ni, nd, nper = rec['nids'], rec['ndim'], rec['nper']
    special = rec['kind'] in ('P', 'H')
    val = 0.0
    E = np.zeros((ni, nd))
    D = np.zeros((ni, nper, nd))
    psi = np.zeros((ni, nd))
    for i in range(ni):
        def F(z, i=i):
            e = z[:nd]
            V = z[nd:].reshape(nper, nd)
            t = dens_i(rec, e, V, i)
            if use_w and not special:
                p = psi_i(rec, e, V, i)
                for d in range(nd):
                    t = t + w[i][d] * p[d]
            return t
        z0 = np.concatenate([eta[i], Vi[i].flatten()])
        val += interp.value(lambda z: dens_i(rec, z[:nd], z[nd:].reshape(nper, nd), i), z0)
        psi[i] = np.real(psi_i(rec, eta[i].astype(complex), Vi[i].astype(complex), i))
        if not special:
            g = interp.grad(F, z0)
            E[i] = g[:nd]
            D[i] = g[nd:].reshape(nper, nd)
        else:
            E[i] = w[i] if use_w else 0.0
    return val, psi, E, D


def params_in_layout(layout, Vi):
    if layout == 'flat':
        return Vi[0].flatten()
    if layout == 'matrix':
        return Vi[0].copy()
    return Vi.copy()


def replay_case(arg):
    rec, seed = arg
    fails, cnt = [], {'cases': 1}
    key = digest(rec)
    rng = np.random.default_rng([seed, int(key, 16) % (2 ** 31)])
    feats = features(rec)
    for f in feats:
        cnt['feat_' + f] = 1

    def fail(clause, manifestation, detail):
        fails.append(dict(case=dict(config=rec), clause=clause, manifestation=manifestation, detail=detail,
                          features=feats))
    ni, nd, nper = rec['nids'], rec['ndim'], rec['nper']
    special = rec['kind'] in ('P', 'H')
    variants = [False] + ([True] if rec['layout'] == 'tensor' else [])
    for per_individual in variants:
        try:
            model = make_model(rec)
            scribble(model)
        except Exception as e:
            fail('Construct', type(e).__name__, repr(e))
            return fails, cnt
        if model.n_parameters() != rec['npop'] or \
                [int(x) for x in model.n_hierarchical_parameters(ni)] != [rec['nbottom'], rec['ntop']]:
            fail('Counts', 'counts', dict(n_parameters=model.n_parameters(),
                                          nhier=list(model.n_hierarchical_parameters(ni))))
        Vi, eta, w = draw(rec, rng, per_individual)
        use_w = rec['upstream']
        val, psi, E, D = reference(rec, Vi, eta, w, use_w)
        P = params_in_layout(rec['layout'], Vi)
        P_in, eta_in, w_in = np.array(P), eta.copy(), w.copy()
        ctx = dict(per_individual=per_individual)
        with warnings.catch_warnings():
            warnings.simplefilter('error', RuntimeWarning)
            # ---- log-likelihood ------------------------------------------------------
            try:
                got = model.compute_log_likelihood(P_in, eta_in)
                cnt['evaluations'] = cnt.get('evaluations', 0) + 1
                if not interp.close(got, val):
                    fail('Density', 'value', dict(ctx, got=float(got), expected=val))
            except Exception as e:
                fail('Density', type(e).__name__, dict(ctx, error=repr(e)))
            # ---- individual parameters -------------------------------------------------
            try:
                got = np.asarray(model.compute_individual_parameters(P_in, eta_in), dtype=float)
                cnt['evaluations'] = cnt.get('evaluations', 0) + 1
                if got.shape != psi.shape or not interp.close(got, psi):
                    fail('Transform', 'psi', dict(ctx, got=got.tolist(), expected=psi.tolist()))
                if rec['layout'] == 'flat':
                    got2 = np.asarray(model.compute_individual_parameters(P_in, eta_in.flatten()), dtype=float)
                    if got2.shape != psi.shape or not interp.close(got2, psi):
                        fail('Transform', 'psi_flat_eta', dict(ctx, got=got2.tolist(), expected=psi.tolist()))
            except Exception as e:
                fail('Transform', type(e).__name__, dict(ctx, error=repr(e)))
            # ---- sensitivities in the requested return form ----------------------------
            try:
                kw = dict(dlogp_dpsi=(w_in if use_w else None), reduce=(rec['form'] == 'reduced'))
                if rec['form'] == 'unflattened':
                    kw['flattened'] = False
                out = model.compute_sensitivities(P_in, eta_in, **kw)
                cnt['evaluations'] = cnt.get('evaluations', 0) + 1
                if not interp.close(out[0], val):
                    fail('Sens', 'score', dict(ctx, got=float(out[0]), expected=val))
                if rec['form'] == 'reduced':
                    g = np.asarray(out[1], dtype=float)
                    if rec['kind'] == 'P':
                        exp = E.sum(axis=0)
                    elif rec['kind'] == 'H':
                        exp = E.flatten()
                    else:
                        exp = np.concatenate([E.flatten(), D.sum(axis=0).flatten()])
                    if g.shape != (rec['reducedlen'],):
                        fail('ReducedLenOK', 'length', dict(ctx, got=list(g.shape), expected=rec['reducedlen']))
                    elif not interp.close(g, exp, rtol=1e-8, atol=1e-8):
                        fail('ReducedComplete', 'gradient', dict(ctx, got=g.tolist(), expected=exp.tolist()))
                    # documented: "reduce is prioritised over flattened" -- the hierarchical form is the same whatever the
                    # other flag says
                    try:
                        out_rf = model.compute_sensitivities(P_in, eta_in, flattened=False, **kw)
                        g_rf = np.asarray(out_rf[1], dtype=float)
                        cnt['evaluations'] = cnt.get('evaluations', 0) + 1
                        if len(out_rf) != len(out) or g_rf.shape != g.shape or not interp.close(g_rf, g, rtol=1e-10, atol=1e-10):
                            fail('ReducedComplete', 'reduce_not_prioritised_over_flattened',
                                 dict(ctx, got=list(g_rf.shape), expected=list(g.shape)))
                    except TypeError:
                        pass                                       # (a class whose method has no such flag)
                else:
                    dpsi = np.asarray(out[1], dtype=float)
                    dth = np.asarray(out[2], dtype=float)
                    if dpsi.shape != E.shape or not interp.close(dpsi, E, rtol=1e-8, atol=1e-8):
                        fail('SeparateComplete', 'dpsi', dict(ctx, got=dpsi.tolist(), expected=E.tolist()))
                    if rec['form'] == 'separate':
                        exp = D.sum(axis=0).flatten()
                    else:
                        exp = D
                    if dth.shape != exp.shape:
                        fail('SeparateComplete', 'dtheta_shape', dict(ctx, got=list(dth.shape), expected=list(exp.shape)))
                    elif not interp.close(dth, exp, rtol=1e-8, atol=1e-8):
                        fail('SeparateComplete', 'dtheta', dict(ctx, got=dth.tolist(), expected=exp.tolist()))
            except Exception as e:
                fail('Sens', type(e).__name__, dict(ctx, error=repr(e)))
        # ---- point masses are EXACT: an individual parameter that differs from the pooled / heterogeneous value by one unit
        # in the last place (or by 1e-9 relative) is outside the support
        if special and not fails:
            for bump in ('ulp', 'rel'):
                e2 = eta.copy()
                e2[0, 0] = np.nextafter(e2[0, 0], np.inf) if bump == 'ulp' else e2[0, 0] * (1.0 + 1e-9)
                try:
                    with warnings.catch_warnings():
                        warnings.simplefilter('ignore')
                        v2 = model.compute_log_likelihood(np.array(P), e2)
                        s2 = model.compute_sensitivities(np.array(P), e2)[0]
                    cnt['point_mass_neighbours'] = cnt.get('point_mass_neighbours', 0) + 1
                    if not (np.isneginf(v2) and np.isneginf(s2)):
                        fail('Density', 'point_mass_not_exact', dict(ctx, bump=bump, got=[float(v2), float(s2)]))
                except Exception as e:
                    fail('Density', type(e).__name__, dict(ctx, bump=bump, error=repr(e)))
        if not (np.array_equal(P_in, P) and np.array_equal(eta_in, eta) and np.array_equal(w_in, w)):
            fail('NoInputWrite', 'inputs_modified', ctx)
        # ---- support: a negative scale scores -inf, for value and sensitivities ----------
        if not special and not per_individual and not fails:
            Vb = Vi.copy()
            Vb[:, 1, 0] = -0.5
            Pb = params_in_layout(rec['layout'], Vb)
            try:
                with warnings.catch_warnings():
                    warnings.simplefilter('ignore')
                    a = model.compute_log_likelihood(Pb, eta)
                    b = model.compute_sensitivities(Pb, eta)[0]
                if rec['cen'] and not (np.isneginf(a) and np.isneginf(b)):
                    fail('Support', 'negative_scale', dict(value=float(a), s1=float(b)))
            except Exception as e:
                fail('Support', type(e).__name__, repr(e))
        if special and not fails:
            eb = eta.copy()
            eb[0, 0] += 0.25
            try:
                a = model.compute_log_likelihood(P, eb)
                b = model.compute_sensitivities(P, eb)[0]
                if not (np.isneginf(a) and np.isneginf(b)):
                    fail('Support', 'mismatch_not_minus_inf', dict(value=float(a), s1=float(b)))
            except Exception as e:
                fail('Support', type(e).__name__, repr(e))
    return fails, cnt


def representation_checks(seed):
    """PopLeaf!Representations: a population model's results are functions of the VALUES it is handed, not of how
    the caller stores them.  Whole-number individual parameters / population parameters / upstream sensitivities are
    passed as float arrays and as integer arrays; log-likelihood, transform and all three
    sensitivity forms must coincide (leaf, composed, covariate and reduced models)."""
    fails = []
    rng = np.random.default_rng([seed, 5])

    def models():
        yield 'Gaussian(2)', chi.GaussianModel(n_dim=2), [2, 3, 1, 2], None
        yield 'LogNormal', chi.LogNormalModel(), [1, 1], None
        yield 'TruncatedGaussian', chi.TruncatedGaussianModel(), [2, 1], None
        yield 'Composed[G, LN, P]', chi.ComposedPopulationModel([chi.GaussianModel(), chi.LogNormalModel(), chi.PooledModel()]), \
            [2, 1, 1, 1, 3], None
        yield 'Composed[Gnc(2), H]', chi.ComposedPopulationModel([chi.GaussianModel(n_dim=2, centered=False),
                                                                 chi.HeterogeneousModel()]), None, None
        yield 'Covariate(G)', chi.CovariatePopulationModel(chi.GaussianModel(), chi.LinearCovariateModel(n_cov=1)), \
            [2, 1, 1, 1], [[1], [2], [3]]
        red = chi.ReducedPopulationModel(chi.ComposedPopulationModel([chi.GaussianModel(), chi.PooledModel()]))
        red.fix_parameters({'Std. Dim. 1': 2})
        yield 'Reduced(Composed[G, P])', red, [3, 4], None
    for name, m, par, cov in models():
        nd = m.n_dim()
        m.set_n_ids(3)
        if par is None:
            par = [2, 3, 1, 2, 4, 5, 6]             # Gnc(2): means, stds; H: one value per individual
        psi = [[int(v) for v in row] for row in rng.integers(1, 5, size=(3, nd))]
        # pooled and heterogeneous dimensions: the individual parameters ARE the population parameters
        inner = m.get_population_model() if isinstance(m, chi.ReducedPopulationModel) else m
        for d0, d1, p0, p1, pooled in inner.get_special_dims()[0]:
            if isinstance(m, chi.ReducedPopulationModel):
                continue                                   # (handled below: the reduced model pools its last dimension)
            for d in range(d0, d1):
                for i in range(3):
                    psi[i][d] = par[p0 + (d - d0)] if pooled else par[p0 + i * (d1 - d0) + (d - d0)]
        if isinstance(m, chi.ReducedPopulationModel):
            for row in psi:
                row[1] = par[1]
        w = [[int(v) for v in row] for row in rng.integers(-3, 4, size=(3, nd))]
        kw = {} if cov is None else {'covariates': np.array(cov, dtype=float)}
        res = {}
        for rep in ('float', 'int'):
            conv = {'float': lambda a: np.array(a, dtype=float), 'int': lambda a: np.array(a, dtype=int)}[rep]
            try:
                with warnings.catch_warnings():
                    warnings.simplefilter('ignore')
                    out = [m.compute_log_likelihood(conv(par), conv(psi), **kw),
                           m.compute_individual_parameters(conv(par), conv(psi), **kw)]
                    for form in (dict(), dict(reduce=True), dict(flattened=False)):
                        for up in (None, w):
                            try:
                                r_ = m.compute_sensitivities(conv(par), conv(psi), dlogp_dpsi=(None if up is None else conv(up)),
                                                             **form, **kw)
                            except TypeError:
                                out += [np.array(np.nan)]          # (a form this class does not offer)
                                continue
                            out += [np.array(x, dtype=float) for x in r_]
                res[rep] = out
            except Exception as e:
                fails.append(('Representations', type(e).__name__, dict(model=name, representation=rep, error=repr(e))))
        for rep in ('int',):
            if rep in res and 'float' in res:
                a, b = res['float'], res[rep]
                bad = [k for k in range(min(len(a), len(b)))
                       if np.shape(a[k]) != np.shape(b[k]) or not np.allclose(a[k], b[k], rtol=1e-12, atol=1e-12, equal_nan=True)]
                if len(a) != len(b) or bad:
                    fails.append(('Representations', 'differs_from_float', dict(
                        model=name, representation=rep, entries=bad[:5],
                        float=[np.asarray(a[k]).tolist() for k in bad[:2]], other=[np.asarray(b[k]).tolist() for k in bad[:2]])))
    return fails
