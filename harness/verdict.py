"""Verdicts: known findings, replay files, evidence files, exit codes.

A *failure* is a dict ``{case, clause, manifestation, detail, features}`` produced by a replayer or a
trace validator.  It is *explained* only by an **open** entry of /verif/known_findings.json of the
same property whose ``feature`` is among the failure's features and whose ``clause`` and
``manifestation`` match; every other failure is a VIOLATION.  The file is never written at run
time; ``fixed`` entries explain nothing.
"""
import json
import os
import sys

from . import common
from .common import REPLAYS, EVIDENCE, VERIF, digest, jdump

KNOWN = os.path.join(VERIF, 'known_findings.json')


def load_known(prop):
    if not os.path.exists(KNOWN):
        return []
    with open(KNOWN) as f:
        data = json.load(f)
    return [e for e in data.get('findings', []) if e.get('property') == prop]


class Verdict(object):
    def __init__(self, prop, tier, seed):
        self.prop = prop
        self.tier = tier
        self.seed = seed
        self.timer = common.Timer()
        self.known = load_known(prop)
        self.explained = {}      # key -> count
        self.violations = []     # failures not explained
        self.counters = {}
        self.samples = []
        self.notes = []
        common.ensure_dirs()

    # ---- counting -------------------------------------------------------------------------
    def count(self, name, n=1):
        self.counters[name] = self.counters.get(name, 0) + n

    def merge_counters(self, d):
        for k, v in d.items():
            self.count(k, v)

    def sample(self, s, limit=4):
        if len(self.samples) < limit:
            self.samples.append(s)

    # ---- failures -------------------------------------------------------------------------
    def _explains(self, entry, failure):
        """An open entry explains a failure iff its feature holds for the failing case and the failing
        clause / manifestation are among the ones the entry lists ('*' = any)."""
        if entry.get('status') != 'open':
            return False
        if entry.get('feature') not in failure.get('features', []):
            return False

        def among(val, spec):
            if spec in (None, '*'):
                return True
            if isinstance(spec, (list, tuple)):
                return val in spec
            return val == spec
        return among(failure.get('clause'), entry.get('clause')) and \
            among(failure.get('manifestation'), entry.get('manifestation'))

    def failure(self, failure):
        for e in self.known:
            if self._explains(e, failure):
                self.explained[e['key']] = self.explained.get(e['key'], 0) + 1
                return False
        self.violations.append(failure)
        return True

    def failures(self, fs):
        for f in fs:
            self.failure(f)

    def vacuous(self, why):
        """A run that exercised nothing of what it is meant to exercise is a failure of the machinery (exit 2) -- unless it
        already found violations: a change that makes every case fail early must be REPORTED, not masked by the guard."""
        if not self.violations:
            raise common.MachineryError(why)
        self.notes.append('vacuity guard skipped because violations were found: ' + why)

    # ---- finishing ------------------------------------------------------------------------
    def finish(self, level, coverage, assumptions=(), max_replays=5):
        """Writes evidence and replay files, prints the protocol lines, returns the exit code."""
        lines = []
        for e in self.known:
            if e.get('status') == 'open' and self.explained.get(e['key']):
                lines.append('KNOWN-FINDING: property=%s %s [%s; %d cases]' % (
                    self.prop, e['description'], e['key'], self.explained[e['key']]))
        replay_paths = []
        seen = set()
        for f in self.violations:
            sig = (f.get('clause'), f.get('manifestation'), tuple(sorted(f.get('features', []))))
            if sig in seen and len(replay_paths) >= 1:
                continue
            seen.add(sig)
            if len(replay_paths) >= max_replays:
                break
            path = os.path.join(REPLAYS, '%s-%s.json' % (self.prop, digest(f)))
            jdump(dict(property=self.prop, seed=self.seed, tier=self.tier, **f), path)
            replay_paths.append(path)
            lines.append('VIOLATION property=%s replay=%s' % (self.prop, path))
            lines.append('  clause=%s manifestation=%s features=%s' % (
                f.get('clause'), f.get('manifestation'), f.get('features')))
            d = str(f.get('detail'))
            lines.append('  detail=%s' % d[:600])
        cov = dict(coverage)
        cov.setdefault('samples', self.samples or [{'note': 'no sample recorded'}])
        cov['counters'] = self.counters
        cov['known_findings_encountered'] = self.explained
        cov['violation_signatures'] = len(seen)
        ev = dict(property_id=self.prop, tier=self.tier, seed=int(self.seed), level=level,
                  coverage=cov, assumptions=list(assumptions), wall_s=self.timer.wall(),
                  violations=len(self.violations), notes=self.notes)
        jdump(ev, os.path.join(EVIDENCE, '%s.json' % self.prop))
        for l in lines:
            print(l)
        print('%s tier=%s seed=%s wall=%.1fs violations=%d explained=%s' % (
            self.prop, self.tier, self.seed, ev['wall_s'], len(self.violations), self.explained))
        sys.stdout.flush()
        return 1 if self.violations else 0


def pmap(fn, items, procs=16, chunk=None):
    """Maps fn over items in forked worker processes (fn must be a module-level function)."""
    import multiprocessing as mp
    items = list(items)
    if not items:
        return []
    if procs <= 1 or len(items) < 8:
        return [fn(x) for x in items]
    ctx = mp.get_context('fork')
    chunk = chunk or max(1, min(200, len(items) // (procs * 8) or 1))
    with ctx.Pool(procs) as pool:
        return pool.map(fn, items, chunksize=chunk)
