"""C12 -- population filters use the documented estimators; missing-data invariant (module Filters)."""
import json

from . import tlc
from .cache import cached
from .common import MachineryError
from .verdict import Verdict, pmap

PROP = 'C12'
ASSUME = [
    'documented estimators / densities written independently in harness/replay_filters.py (empirical mean, unbiased '
    'variance, of the logarithms for the log-normal family; rule-of-thumb bandwidth^2 = (4/(3 n_s))^(2/5) * variance of the '
    'simulated (log-)values; equal-weight mixture over consecutive blocks); derivatives by complex step, 1e-7',
    'the bandwidth of the log-normal KDE filter is estimated from the simulated measurements (as the property states)',
    '3 measured individuals, 1-2 observables, 2-3 (4) time points, 4 simulated individuals (2 blocks), up to 2 missing values '
    'leaving one value per cell; simulated values seeded, re-drawn until every estimator block is well conditioned',
]


def _compute(tier, seed):
    r = tlc.run('Filters', 'Filters_%s.cfg' % tier)
    try:
        tlc.run('Filters', 'Filters_asfound.cfg', want_records=False)
        raise MachineryError('negative control failed: overwrite variant not refuted')
    except tlc.SpecViolation as e:
        if e.res.violated not in ('PairingOK', 'SensOrderOK'):
            raise MachineryError('overwrite variant refuted on %s' % e.res.violated)
    from . import replay_filters
    recs = r.records
    if tier == 'thorough':
        recs = [x for i, x in enumerate(recs) if x['nt'] < 4 or i % 7 == seed % 7]
    results = pmap(replay_filters.replay_case, [(rec, k, seed) for rec in recs for k in replay_filters.KINDS])
    return dict(run=r.summary(), n=len(recs), results=results, samples=recs[3:4] + recs[-1:], kinds=replay_filters.KINDS)


def run(tier, seed):
    v = Verdict(PROP, tier, seed)
    out = cached('filters', tier, seed, lambda: _compute(tier, seed))
    for fails, cnt in out['results']:
        v.failures(fails)
        v.merge_counters(cnt)
    for s in out['samples']:
        v.sample(s)
    nt = v.counters.get('feat_two_non_identity_sorts', 0)
    if nt == 0 or v.counters.get('with_missing', 0) == 0:
        v.vacuous('vacuous run')
    cov = dict(states=out['run']['states'], transitions=out['run']['transitions'],
               traces_validated_against_impl=out['n'] * len(out['kinds']), evaluations=v.counters.get('evaluations', 0),
               distinct_nontrivial=nt, exhaustive=(tier == 'quick'),
               rule='TLC enumerates every history of up to 3 sort_times calls over 2-3 (4) time points; each history x 5 '
                    'filter kinds replayed on a plain and on a composed filter with seeded data; non-trivial = at least two '
                    'non-identity sorts (where a stored order must be composed)',
               tlc_runs=[out['run']], spec_negative_control='Filters_asfound.cfg (second sort overwrites) refuted by TLC')
    return v.finish('model_checking', cov, ASSUME)


def replay(path):
    from . import replay_filters
    rep = json.load(open(path))
    fails, _ = replay_filters.replay_case((rep['case']['config'], rep['case']['kind'], rep['seed']))
    for f in fails:
        print('VIOLATION property=%s replay=%s' % (PROP, path))
        print('  clause=%s manifestation=%s detail=%s' % (f['clause'], f['manifestation'], str(f['detail'])[:400]))
        return 1
    print('replay passes')
    return 0
