from . import poplayout_run
from .common import MachineryError
from .verdict import Verdict

CLAUSES = {
    'C02': {'Construct', 'Evaluable', 'Denotation', 'SpecialTableOK', 'NamesIds', 'NoInputWrite', 'Posterior'},
    'C03': {'EvaluableS1', 'GradSlotOK', 'HistoryFree', 'PosteriorGrad', 'FiniteAgree'},
    'C17': {'Agree', 'UniqueDefault', 'NamesIds', 'Construct'},
}
ASSUME = [
    'individual likelihoods are chi.LogLikelihood over the harness ProbeMech (closed form) with a Gaussian error '
    'model; each individual has its own seeded data',
    'the documented hierarchical log-likelihood (Reference in harness/replay_poplayout.py) is evaluated through the '
    "specification's Layout; densities from harness/interp.py; derivatives by complex step (1e-7)",
    'parameter values are seeded inside the support (scales in [0.2, 0.6], individual parameters positive)',
    'covariate wrappers use the default selection of all population parameters (arbitrary selections: C07)',
]


def run(prop, tier, seed, nontrivial_feats, rule, extra=None):
    v = Verdict(prop, tier, seed)
    out = poplayout_run.run(tier, seed)
    behind = 0
    for fails, cnt in out['results']:
        mine = [f for f in fails if f['clause'] in CLAUSES[prop]]
        v.failures(mine)
        if fails and not mine:
            behind += 1
        v.merge_counters(cnt)
    v.counters['cases_failing_on_clauses_of_other_properties'] = behind
    for s in out['samples']:
        v.sample(s)
    nt = sum(1 for fails, cnt in out['results'] if any(cnt.get('feat_' + f) for f in nontrivial_feats) or cnt.get('nontrivial'))
    if out['n'] == 0 or nt == 0:
        v.vacuous('vacuous run')
    cov = dict(
        states=sum(r['states'] for r in out['runs']), transitions=sum(r['transitions'] for r in out['runs']),
        traces_validated_against_impl=out['n'],
        evaluations=v.counters.get('evaluations', 0), distinct_nontrivial=nt, rule=rule, exhaustive=True,
        tlc_runs=out['runs'],
        spec_negative_control='PopLayout_asfound.cfg refuted by TLC on ScatterOK (covariate wrapper around a special dimension)')
    if extra is not None:
        extra(v, cov)
    return v.finish('model_checking', cov, ASSUME)


def replay(prop, path):
    import json
    from . import replay_poplayout
    rep = json.load(open(path))
    cfg = rep['case']['config']
    cfg.pop('_reduced_before_nids', None)
    fails, _ = replay_poplayout.replay_case((cfg, rep['seed']))
    fails = [f for f in fails if f['clause'] in CLAUSES[prop]]
    for f in fails:
        print('VIOLATION property=%s replay=%s' % (prop, path))
        print('  clause=%s manifestation=%s detail=%s' % (f['clause'], f['manifestation'], str(f['detail'])[:400]))
        return 1
    print('replay passes')
    return 0
