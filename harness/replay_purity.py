"""spec -> code for module Purity (C19): interleavings of evaluations (value, pointwise, value with
sensitivities, seeded sampling) on two objects built from the same user models, with later changes
to the user's own models in between, are executed on real chi objects over a dosed PKPD model on
RefSim.  Every result is compared with the same evaluation on a FRESHLY built object evaluated
once; arguments are hashed before and after; at the end the objects are evaluated in forked
worker processes and through pints' parallel evaluator and compared with the parent's results."""
import multiprocessing as mp
import os
import warnings

import numpy as np

from . import refsim
from .common import digest

refsim.install()
from . import probes  # noqa: E402

chi = probes.chi
import pints  # noqa: E402

LIB = os.path.join(os.path.dirname(os.path.abspath(chi.__file__)), 'library', 'model_library')
OUTS = ['central.drug_amount', 'central.drug_concentration']
REG1 = dict(dose=2.0, start=0.5, duration=0.25, period=1.0, num=3)
REG2 = dict(dose=1.0, start=0.0, duration=0.5)
DATA = dict(obs=[[1.9, 1.2, 0.8], [1.1, 0.6]], times=[[0.5, 1.5, 2.5], [1.0, 2.0]])
REL = {1: 0.15, 2: 0.9}          # value codes of Purity!cells[..].rel
BASE_FIX = 0.35
X_LL = np.array([1.3, 0.9, 0.7, 0.4, 0.3, 0.2])
PAIRS = [('ll', 'lp_same'), ('ll', 'll'), ('llfix', 'pm'), ('hlp', 'll'), ('fp', 'lp'), ('pm', 'lp'), ('hlp', 'fp'), ('ctrl', 'll'),
         ('lp', 'ctrl'), ('fp', 'fp'), ('ppm', 'll'), ('ppm', 'ppm'), ('tg', 'pm'), ('tg', 'tg'), ('popnc', 'popnc'), ('popnc', 'hlp'), ('llallfix', 'll'), ('llallfix', 'llallfix'), ('ctrlpop', 'll'), ('ctrlpop', 'ctrlpop')]


def user_models():
    m = chi.PKPDModel(os.path.join(LIB, 'pk_one_comp.xml'))
    m.set_administration('central', direct=True)
    m.set_dosing_regimen(**REG1)
    m.set_outputs(OUTS)
    # the first error model arrives as a ReducedErrorModel (relative noise fixed): its mask and value buffer are arrays
    # that fix_parameters writes IN PLACE -- hidden state that a shallow copy would share with the user's object
    rem = chi.ReducedErrorModel(chi.ConstantAndMultiplicativeGaussianErrorModel())
    rem.fix_parameters({'Sigma rel.': REL[1]})
    ems = [rem, chi.ConstantAndMultiplicativeGaussianErrorModel()]
    obs = [np.array(o) for o in DATA['obs']]
    times = [np.array(t) for t in DATA['times']]
    # ONE population filter object of the user's, handed to every filter posterior built from these user models
    fdata = np.array([[[1.9, 1.2, 1.5], [1.1, 0.6, 0.8]], [[2.1, 1.0, 1.4], [1.3, 0.7, np.nan]], [[1.7, 1.4, 1.2], [0.9, 0.5, 0.7]]])
    return dict(mech=m, ems=ems, obs=obs, times=times, filter=chi.GaussianFilter(fdata), ftimes=[1.5, 0.5, 1.0])


def prior(n):
    return pints.ComposedLogPrior(*[pints.GaussianLogPrior(1.0 + 0.05 * k, 1.5) for k in range(n)])


def build(kind, u, shared=None):
    """returns (object, evaluation point)"""
    if kind == 'll':
        return chi.LogLikelihood(u['mech'], u['ems'], u['obs'], u['times']), X_LL
    if kind == 'lp':
        ll = chi.LogLikelihood(u['mech'], u['ems'], u['obs'], u['times'])
        return chi.LogPosterior(ll, prior(6)), X_LL
    if kind == 'lp_same':
        return chi.LogPosterior(shared, prior(6)), X_LL
    if kind == 'llfix':
        ll = chi.LogLikelihood(u['mech'], u['ems'], u['obs'], u['times'])
        ll.fix_parameters({'central.size': 0.9, OUTS[1] + ' Sigma rel.': 0.2})
        return ll, np.array([1.3, 0.7, 0.4, 0.3])
    if kind == 'llallfix':
        # EVERY mechanistic parameter fixed (nothing of the model left to differentiate); the object's own reconfiguration
        # (objfix) sets one of them free again
        ll = chi.LogLikelihood(u['mech'], u['ems'], u['obs'], u['times'])
        ll.fix_parameters({'central.drug_amount': 1.3, 'central.size': 0.9, 'global.elimination_rate': 0.7})
        return ll, np.array([0.4, 0.3, 0.2])
    if kind == 'hlp':
        lls = [chi.LogLikelihood(u['mech'], u['ems'], u['obs'], u['times']),
               chi.LogLikelihood(u['mech'], u['ems'], [u['obs'][0][:2], u['obs'][1]], [u['times'][0][:2], u['times'][1]])]
        pop = chi.ComposedPopulationModel([chi.LogNormalModel(), chi.PooledModel(n_dim=2), chi.GaussianModel(centered=False),
                                           chi.PooledModel(n_dim=2)])
        h = chi.HierarchicalLogPosterior(chi.HierarchicalLogLikelihood(lls, pop), prior(8))
        return h, np.array([1.2, -0.3, 1.4, 0.4, 0.2, 0.3, 0.9, 0.7, 0.5, 0.1, 0.3, 0.2])
    if kind == 'fp':
        # unsorted times (a 3-cycle): the posterior sorts ITS copy of the user's filter
        pop = chi.ComposedPopulationModel([chi.LogNormalModel(), chi.PooledModel(n_dim=2)])
        f = chi.PopulationFilterLogPosterior(u['filter'], list(u['ftimes']), u['mech'], pop, prior(6), n_samples=2)
        return f, np.array([0.2, 0.3, 0.9, 0.7, 0.4, 0.3, 1.2, 1.4, 0.1, -0.2, 0.3, 0.5, -0.4, 0.2, 0.6, -0.1, 0.25, -0.35, 0.15, 0.45])
    if kind == 'pm':
        return chi.PredictiveModel(u['mech'], u['ems']), X_LL
    if kind == 'tg':
        # a population model whose sampler draws from NumPy's GLOBAL generator (scipy's truncnorm): seeded sampling must
        # not depend on what else was sampled or evaluated before -- also for the seed 0
        return chi.ReducedPopulationModel(chi.TruncatedGaussianModel(n_dim=2)), np.array([1.0, 2.0, 0.5, 0.3])
    if kind == 'popnc':
        # a reduced population model over non-centred leaves (one scale fixed: the wrapper keeps the fixed value in a buffer
        # it hands to the wrapped model on every call); evaluations: log-likelihood, sensitivities, individual parameters and
        # seeded SAMPLING -- each a function of its arguments, none of them writing to what it was given
        m = chi.ReducedPopulationModel(chi.ComposedPopulationModel([
            chi.GaussianModel(centered=False), chi.LogNormalModel(centered=False), chi.GaussianModel()]))
        m.fix_parameters({'Std. Dim. 1': 0.4})
        return m, np.array([1.5, 0.2, 0.3, 1.1, 0.6])
    if kind == 'ppm':
        # a posterior predictive model over a posterior with TWO individuals: the walk samples them alternately from the
        # same object (seeded) -- what one individual's sample returns must not depend on who was sampled before
        import xarray as xr
        pm = chi.PredictiveModel(u['mech'], u['ems'])
        data = {}
        for q, nme in enumerate(pm.get_parameter_names()):
            arr = np.empty((2, 2, 2))
            for c_ in range(2):
                for d_ in range(2):
                    arr[c_, d_, 0] = X_LL[q] * (1.0 + 0.01 * c_ + 0.02 * d_)
                    arr[c_, d_, 1] = X_LL[q] * (1.3 + 0.01 * c_ + 0.02 * d_)
            data[nme] = (('chain', 'draw', 'individual'), arr)
        ds = xr.Dataset(data, coords={'chain': [0, 1], 'draw': [0, 1], 'individual': ['a', 'b']})
        return chi.PosteriorPredictiveModel(pm, ds), X_LL
    if kind == 'ctrlpop':
        # a hierarchical posterior built by the problem controller over a PooledModel used DIRECTLY as the population model (one
        # individual); the controller also hands out a predictive model -- a sibling whose seeded sampling (for another number
        # of individuals) is an evaluation like any other and leaves the posterior as it was
        import pandas as pd
        rows = []
        for o in range(2):
            for t, y in zip(u['times'][o], u['obs'][o]):
                rows.append(dict(ID=1, Time=float(t), Observable='obs%d' % o, Value=float(y)))
        frame = pd.DataFrame(rows)
        c = chi.ProblemModellingController(u['mech'], [u['ems'][0].get_error_model(), u['ems'][1]])
        c.set_population_model(chi.PooledModel(n_dim=7))
        c.set_data(frame, output_observable_dict={OUTS[0]: 'obs0', OUTS[1]: 'obs1'}, dose_key=None, dose_duration_key=None)
        c.set_log_prior(prior(7))
        xp = np.array([1.3, 0.9, 0.7, 0.4, 0.15, 0.3, 0.2])
        pmodel = c.get_predictive_model()
        u.setdefault('sibling_evals', []).append(
            lambda: pmodel.sample(xp.copy(), [0.5, 1.0], n_samples=4, seed=1, return_df=False))
        return c.get_log_posterior(), xp
    if kind == 'ctrl':
        # a posterior built by the problem controller from the user's models and a data frame; the controller (kept in
        # u['ctrl']) is reconfigured LATER by the walk's mutation steps: the posterior it handed out must not notice
        import pandas as pd
        rows = []
        for ind in (1, 2):
            for o in range(2):
                for t, y in zip(u['times'][o], u['obs'][o]):
                    rows.append(dict(ID=ind, Time=float(t), Observable='obs%d' % o, Value=float(y) + 0.05 * (ind - 1)))
            rows.append(dict(ID=ind, Time=0.25 * ind, Observable=np.nan, Value=np.nan, Dose=1.5 * ind, Duration=0.25))
        frame = pd.DataFrame(rows)
        c = chi.ProblemModellingController(u['mech'], [u['ems'][0].get_error_model(), u['ems'][1]])
        # (a second controller of the user's, built from the SAME models with the outputs listed the other way round and thrown
        # away: constructing it configures ITS copy of the mechanistic model, not the user's object)
        chi.ProblemModellingController(u['mech'], [u['ems'][1], u['ems'][0].get_error_model()], outputs=[OUTS[1], OUTS[0]])
        c.fix_parameters({OUTS[0] + ' Sigma rel.': REL[1]})
        c.set_data(frame, output_observable_dict={OUTS[0]: 'obs0', OUTS[1]: 'obs1'})
        c.set_log_prior(prior(6))
        u['ctrl'], u['frame'] = c, frame
        # siblings derived from the controller before and after it hands out an individual's posterior are the same: the
        # predictive model carries the regimen of the user's model, not the doses of whoever's posterior was built last
        with warnings.catch_warnings():
            warnings.simplefilter('ignore')
            reg_before = c.get_predictive_model().get_dosing_regimen()
            post_ = c.get_log_posterior(individual='2')
            post_(X_LL.copy())
            reg_after = c.get_predictive_model().get_dosing_regimen()
        same = (reg_before is None and reg_after is None) or (reg_before is not None and reg_after is not None and
                                                              reg_before.reset_index(drop=True).equals(reg_after.reset_index(drop=True)))
        if not same:
            raise AssertionError('the predictive model derived from the controller after get_log_posterior carries another '
                                 'regimen: %r -> %r' % (None if reg_before is None else reg_before.values.tolist(),
                                                        None if reg_after is None else reg_after.values.tolist()))
        return post_, X_LL
    raise ValueError(kind)


def objfix(kind, obj, x):
    """fix_parameters on the object itself (Purity!PU_ObjFix): the base noise of the first output; returns the new point"""
    if kind == 'llallfix':
        obj.fix_parameters({'central.size': None})
        if list(obj.get_parameter_names())[0] != 'central.size':
            raise AssertionError('names after releasing a parameter: %r' % (obj.get_parameter_names(),))
        return np.concatenate([[0.9], x])
    name = OUTS[0] + ' Sigma base'
    names = list(obj.get_parameter_names())
    i = names.index(name)
    obj.fix_parameters({name: BASE_FIX})
    if list(obj.get_parameter_names()) != names[:i] + names[i + 1:]:
        raise AssertionError('names after fix_parameters: %r' % (obj.get_parameter_names(),))
    return np.delete(x, i)


CAN_FIX = ('ll', 'llfix', 'pm', 'llallfix')


def evaluate(kind, obj, x, k):
    with warnings.catch_warnings():
        warnings.simplefilter('error', RuntimeWarning)
        xin = x.copy()
        if kind == 'tg':
            sd = {'value': 0, 'pointwise': np.int64(0), 'S1': 7, 'sample': 0}[k]
            out = obj.sample(xin, n_samples=3, seed=sd)
        elif kind == 'popnc':
            eta = ETA_NC.copy()
            if k == 'value':
                out = np.array([obj.compute_log_likelihood(xin, eta)])
            elif k == 'pointwise':
                out = np.asarray(obj.compute_individual_parameters(xin, eta), dtype=float).flatten()
            elif k == 'sample':
                out = np.asarray(obj.sample(xin, n_samples=3, seed=0), dtype=float).flatten()
            else:
                sc, dpsi, dth = obj.compute_sensitivities(xin, eta)
                out = np.concatenate([[sc], np.asarray(dpsi, dtype=float).flatten(), np.asarray(dth, dtype=float).flatten()])
            if not np.array_equal(eta, ETA_NC):
                raise AssertionError('observations modified')
        elif kind == 'ppm':
            who = 'a' if k in ('value', 'S1') else 'b'
            df = obj.sample(np.array([2.0, 0.5, 1.0]), n_samples=3, individual=who, seed=3)
            out = df['Value'].to_numpy(dtype=float)
        elif kind == 'pm':
            tin = np.array([2.0, 0.5, 1.0])
            out = obj.sample(xin, tin, n_samples=2, seed=3, return_df=False)
            if list(tin) != [2.0, 0.5, 1.0]:
                raise AssertionError('time array modified')
        elif k == 'value' or (k == 'sample') or (k == 'pointwise' and kind in ('lp', 'lp_same', 'hlp', 'fp', 'ctrl', 'ctrlpop')):
            out = obj(xin)
        elif k == 'pointwise':
            out = obj.compute_pointwise_ll(xin)
            if isinstance(obj, chi.LogLikelihood) and len(xin):
                # the same evaluation through posterior samples whose variables carry OTHER names (param_map): an evaluation
                # too -- same values, and the object answers to its own names afterwards
                import xarray as xr
                names0 = list(obj.get_parameter_names())
                ds = xr.Dataset({'v%d' % q: (('chain', 'draw'), np.array([[float(xin[q])]])) for q in range(len(xin))},
                                coords={'chain': [0], 'draw': [0]})
                pw = chi.compute_pointwise_loglikelihood(obj, ds, param_map={n_: 'v%d' % q for q, n_ in enumerate(names0)})
                if not np.allclose(np.asarray(pw, dtype=float).flatten(), np.asarray(out, dtype=float).flatten(), rtol=1e-12, atol=0):
                    raise AssertionError('pointwise values over posterior samples differ from compute_pointwise_ll')
                if list(obj.get_parameter_names()) != names0:
                    raise AssertionError('parameter names changed by a pointwise evaluation over posterior samples: %r -> %r'
                                         % (names0, list(obj.get_parameter_names())))
        else:
            s, g = obj.evaluateS1(xin)
            if isinstance(g, np.ndarray):
                _RAW.append(g)
            out = np.concatenate([[s], np.asarray(g, dtype=float)])
    if not np.array_equal(xin, x):
        raise AssertionError('input vector modified')
    if isinstance(out, np.ndarray):
        _RAW.append(out)
    return np.asarray(out, dtype=float)


# the array OBJECTS the last evaluation handed to its caller (results are values: they are kept by the walk and compared with
# their own copies after the objects have been evaluated again, at another point)
_RAW = []


ETA_NC = np.array([[0.3, -0.2, 1.4], [-0.5, 0.1, 0.9], [0.8, 0.4, 1.7]])


def eff_kind(kind, k):
    if kind == 'popnc':
        return k
    if kind == 'tg':
        return 'seed7' if k == 'S1' else 'seed0'
    if kind == 'ppm':
        return 'a' if k in ('value', 'S1') else 'b'
    if kind == 'pm':
        return 'sample'
    if k == 'sample':
        return 'value'
    if k == 'pointwise' and kind in ('lp', 'lp_same', 'hlp', 'fp', 'ctrl', 'ctrlpop'):
        return 'value'
    return k


_EXPECT = {}


def expected(kind, k, fixed=False):
    key = (kind, eff_kind(kind, k), fixed)
    if key not in _EXPECT:
        u = user_models()
        if kind == 'lp_same':
            ll, _ = build('ll', u)
            obj, x = build('lp_same', u, shared=ll)
        else:
            obj, x = build(kind, u)
        if fixed:
            x = objfix(kind, obj, x)
        _EXPECT[key] = evaluate(kind, obj, x, k)
    return _EXPECT[key]


_FORK = {}


def _child_eval(o):
    """runs in a forked worker: the objects are inherited through fork, not pickled"""
    kind, obj, x = _FORK[o]
    return evaluate(kind, obj, x, 'value')


def replay_walk(arg):
    walk, pair, seed, do_fork = arg
    fails, cnt = [], {'walks': 1}
    feats = ['pair_%s_%s' % pair]
    if any(s[0] == 'mutate' for s in walk):
        feats.append('with_user_mutation')
    if any(s[0] == 'mutate' and s[1] == 'emfix' for s in walk):
        feats.append('with_user_refix')
    if any(s[0] == 'objfix' for s in walk):
        feats.append('with_object_fix')
    for f in feats:
        cnt['feat_' + f] = 1

    def fail(clause, manifestation, detail, step=None):
        fails.append(dict(case=dict(walk=walk if step is None else walk[:step + 1], pair=list(pair)), clause=clause,
                          manifestation=manifestation, detail=detail, features=feats))
    try:
        u = user_models()
        o1, x1 = build(pair[0], u)
        if pair[1] == 'lp_same':
            o2, x2 = build('lp_same', u, shared=o1)
        else:
            o2, x2 = build(pair[1], u)
        objs = {1: (pair[0], o1, x1), 2: (pair[1], o2, x2)}
        objfixed = {1: False, 2: False}
        kept = []
        data_hash = digest([u['obs'][0].tolist(), u['obs'][1].tolist(), u['times'][0].tolist(), u['times'][1].tolist()])
    except Exception as e:
        fail('Construct', type(e).__name__, repr(e))
        return fails, cnt
    for step, s in enumerate(walk):
        try:
            if s[0] == 'mutate':
                op, a = s[1], s[2]
                with warnings.catch_warnings():
                    warnings.simplefilter('ignore')
                    if op == 'adm':
                        u['mech'].set_administration('central', direct=False)
                    elif op == 'reg':
                        u['mech'].set_dosing_regimen(**REG2)
                    elif op == 'outs':
                        u['mech'].set_outputs([OUTS[0]])
                    elif op == 'sens':
                        u['mech'].enable_sensitivities(True)
                    elif op == 'emfix':
                        # Purity!PU_UserRefix: the user re-fixes the reduced error model he handed over, to another
                        # value, and fixes its other parameter as well
                        u['ems'][0].fix_parameters({'Sigma rel.': REL[a], 'Sigma base': 0.77})
                    if 'ctrl' in u:
                        # the controller is reconfigured after it handed out its posterior: other parameters fixed, another
                        # regimen on ITS model via new data, the user's frame scribbled over
                        u['ctrl'].fix_parameters({'central.size': 0.33, OUTS[1] + ' Sigma base': 0.44})
                        u['frame'].loc[u['frame']['Value'].notna(), 'Value'] += 0.5
                        u['frame'].loc[u['frame']['Dose'].notna(), 'Dose'] *= 3.0
                        u['ctrl'].set_data(u['frame'], output_observable_dict={OUTS[0]: 'obs0', OUTS[1]: 'obs1'})
                    # the user also renames an error-model parameter and scribbles over the data arrays
                    u['ems'][1].set_parameter_names(['renamed by user', 'too'])
                    u['obs'][0][0] += 1.0
                    u['times'][1][-1] += 0.5
                    data_hash = None
                cnt['mutations'] = cnt.get('mutations', 0) + 1
                continue
            if s[0] == 'objfix':
                o = s[1]
                kind, obj, x = objs[o]
                # (a posterior built ON the sibling likelihood object holds that object itself and its prior has a fixed
                # dimension: fixing the likelihood afterwards is not a legal history for that pair)
                if kind not in CAN_FIX or objfixed[o] or 'lp_same' in pair:
                    cnt['objfix_skipped'] = cnt.get('objfix_skipped', 0) + 1
                    continue
                objs[o] = (kind, obj, objfix(kind, obj, x))
                objfixed[o] = True
                cnt['objfix'] = cnt.get('objfix', 0) + 1
                continue
            _, o, k = s
            kind, obj, x = objs[o]
            del _RAW[:]
            got = evaluate(kind, obj, x, k)
            kept.append((got, np.array(got, copy=True), step))          # results are values: checked again at the end
            kept.extend((r_, np.array(r_, copy=True), step) for r_ in _RAW)
            exp = expected(kind, k, fixed=objfixed[o])
            cnt['evaluations'] = cnt.get('evaluations', 0) + 1
            if got.shape != exp.shape or not np.allclose(got, exp, rtol=1e-9, atol=1e-10):
                fail('Pure', 'result_depends_on_history', dict(object=kind, evaluation=k, got=got.flatten()[:6].tolist(),
                                                                expected=exp.flatten()[:6].tolist()), step)
                return fails, cnt
        except Exception as e:
            fail('Pure', type(e).__name__, dict(error=repr(e)), step)
            return fails, cnt
    # every object is evaluated once more, at ANOTHER point: a result that is a view of an internal buffer changes now
    for o in (1, 2):
        kind, obj, x = objs[o]
        for k in ('S1', 'value', 'pointwise'):
            try:
                with warnings.catch_warnings():
                    warnings.simplefilter('ignore')
                    evaluate(kind, obj, np.asarray(x, dtype=float) * 1.07 + 0.013, k)
            except Exception:
                pass                # (the other point may be outside the support; only the retained results matter)
    cnt['results_retained'] = len(kept)
    for ref_, cp_, st_ in kept:
        if not np.array_equal(ref_, cp_, equal_nan=True):
            fail('Pure', 'earlier_result_changed_later', dict(step=st_))
            break
    # seeded sampling of SIBLING objects handed out by the same controller (evaluations of theirs, not reconfigurations)
    for fn_ in u.get('sibling_evals', []):
        try:
            with warnings.catch_warnings():
                warnings.simplefilter('ignore')
                fn_()
            cnt['sibling_evaluations'] = cnt.get('sibling_evaluations', 0) + 1
        except Exception as e:
            fail('Pure', type(e).__name__, dict(error=repr(e), where='sibling evaluation'))
    # epilogue of every walk: each kind of evaluation once more at the ORIGINAL point, sampling first -- whatever the walk did
    # (and whatever sampling does), the answers are those of a fresh object
    for o in (1, 2):
        kind, obj, x = objs[o]
        for k in ('sample', 'value', 'pointwise', 'S1', 'sample'):
            try:
                got = evaluate(kind, obj, x, k)
                exp = expected(kind, k, fixed=objfixed[o])
                cnt['evaluations'] = cnt.get('evaluations', 0) + 1
                if got.shape != exp.shape or not np.allclose(got, exp, rtol=1e-9, atol=1e-10):
                    fail('Pure', 'result_depends_on_history', dict(object=kind, evaluation=k, where='epilogue',
                                                                    got=got.flatten()[:6].tolist(), expected=exp.flatten()[:6].tolist()))
                    break
            except Exception as e:
                fail('Pure', type(e).__name__, dict(error=repr(e), where='epilogue', object=kind, evaluation=k))
                break
        # ... and, where the object can be reconfigured and the walk has not done so: a gradient evaluation, THEN the
        # reconfiguration, then every evaluation again -- as a fresh object reconfigured at once would answer
        if kind in CAN_FIX and not objfixed[o] and 'lp_same' not in pair and not fails:
            try:
                evaluate(kind, obj, x, 'S1')
                x = objfix(kind, obj, x)
                objs[o] = (kind, obj, x)
                objfixed[o] = True
                cnt['objfix'] = cnt.get('objfix', 0) + 1
                for k in ('S1', 'value', 'pointwise'):
                    got = evaluate(kind, obj, x, k)
                    exp = expected(kind, k, fixed=True)
                    cnt['evaluations'] = cnt.get('evaluations', 0) + 1
                    if got.shape != exp.shape or not np.allclose(got, exp, rtol=1e-9, atol=1e-10):
                        fail('Pure', 'result_depends_on_history', dict(object=kind, evaluation=k, where='after the closing reconfiguration',
                                                                        got=got.flatten()[:6].tolist(), expected=exp.flatten()[:6].tolist()))
                        break
            except Exception as e:
                fail('Pure', type(e).__name__, dict(error=repr(e), where='closing reconfiguration', object=kind))
    if data_hash is not None and data_hash != digest([u['obs'][0].tolist(), u['obs'][1].tolist(), u['times'][0].tolist(),
                                                      u['times'][1].tolist()]):
        fail('NoInputWrite', 'data_arrays_modified', None)
    # ---- any process: forked workers and pints' parallel evaluator ---------------------------------
    if not do_fork:
        return fails, cnt
    try:
        ctx = mp.get_context('fork')
        _FORK.clear()
        _FORK.update(objs)
        with ctx.Pool(2) as pool:
            res = pool.map(_child_eval, [o for o in (1, 2) if objs[o][0] not in ('pm', 'ppm', 'tg')])
        k = 0
        for o in (1, 2):
            if objs[o][0] in ('pm', 'ppm', 'tg'):
                continue
            exp = expected(objs[o][0], 'value', fixed=objfixed[o])
            if not np.allclose(res[k], exp, rtol=1e-9, atol=1e-10):
                fail('ForkEq', 'forked_worker_differs', dict(object=objs[o][0], got=res[k].tolist(), expected=exp.tolist()))
            k += 1
        for o in (1, 2):
            kind, obj, x = objs[o]
            if kind in ('lp', 'lp_same', 'hlp', 'ctrl'):
                xs = [x, x * 1.01, x * 0.99]
                par = pints.ParallelEvaluator(obj, n_workers=2).evaluate(xs)
                seq = pints.SequentialEvaluator(obj).evaluate(xs)
                if not np.allclose(par, seq, rtol=1e-9, atol=1e-10):
                    fail('ForkEq', 'parallel_evaluator_differs', dict(object=kind, parallel=list(map(float, par)),
                                                                      sequential=list(map(float, seq))))
                cnt['parallel_evaluations'] = cnt.get('parallel_evaluations', 0) + 1
                break
    except Exception as e:
        fail('ForkEq', type(e).__name__, repr(e))
    return fails, cnt
