"""Recording / scriptable random generators (C06, C15, C16).

Inside ``with recording() as rec:`` the following are wrapped from outside chi:

* ``numpy.random.default_rng``: an int / None seed yields a ``RecGen`` (a ``numpy.random.Generator``
  subclass) tagged with its *stream key* -- ("seed", s) or ("fresh", n); an existing generator is
  passed through ("Adopt"); bit generators and seed sequences go to the original function.
* the legacy global functions ``numpy.random.seed / normal / lognormal / uniform / choice / ...`` and
  ``scipy.stats.truncnorm`` as imported into ``chi._population_models`` (which draws from the global
  generator).

Every primitive draw is logged as an event (MakeGen / Adopt / Draw / GlobalSeed / GlobalDraw) with
the public sampling call it happened in.  A ``RecGen`` can be *scripted*: ``normal(loc, scale)``
returns ``loc + scale * z`` and ``lognormal(m, s)`` returns ``exp(m + s * z)`` for harness-chosen z,
``choice`` returns a harness-chosen index -- which turns distributional questions into algebra.
NumPy / SciPy primitives are trusted to sample the law their arguments describe.
"""
import contextlib
import itertools

import numpy as np

_ORIG = {}
_fresh = itertools.count(1)
_gid = itertools.count(1)


class Recorder(object):
    def __init__(self, script=None):
        self.events = []
        self.atoms = []          # one entry per primitive variate: dict(family, loc, scale, ..., gen, key, pos, stage)
        self.script = script     # callable(atom_index) -> z, or None for real randomness
        self.stage = ['top']
        self.slots = {}          # (stream key, position) -> index of the atom drawn there: a COPY of a generator (or a
        #                          second generator made from the same integer seed) replays the same variates

    def emit(self, e, **kw):
        kw['e'] = e
        kw['stage'] = self.stage[-1]
        self.events.append(kw)

    def z(self, n, key=None, pos=0):
        """script values for n variates drawn at positions pos.. of the stream `key`: a position already drawn (by a copy
        of the generator, or by another generator with the same seed) returns the SAME value"""
        out = []
        nxt = len(self.atoms)
        for i in range(n):
            slot = (tuple(key), pos + i) if key is not None else None
            if slot is not None and slot in self.slots:
                out.append(self.script(self.slots[slot]))
            else:
                out.append(self.script(nxt))
                nxt += 1
        return np.array(out, dtype=float)

    def new_atom(self, a):
        """appends an atom unless its stream slot was drawn before (then the earlier atom stands for both)"""
        slot = (tuple(a['key']), a['pos'])
        if a.get('gen', 0) != 0 and slot in self.slots:
            self.events.append(dict(e='Replayed', key=list(a['key']), pos=a['pos'], stage=self.stage[-1]))
            return self.slots[slot]
        self.atoms.append(a)
        if a.get('gen', 0) != 0:
            self.slots[slot] = len(self.atoms) - 1
        return len(self.atoms) - 1


_REC = [None]


def _shape(size, *args):
    b = np.broadcast(*[np.asarray(a) for a in args]) if args else None
    if size is None:
        return b.shape if b is not None else ()
    if np.isscalar(size):
        size = (int(size),)
    return tuple(int(s) for s in size)


class RecGen(np.random.Generator):
    """numpy Generator that logs (and optionally scripts) its primitive draws"""

    def _setup(self, key):
        self._key = key
        self._pos = 0
        self._id = next(_gid)
        return self

    def __deepcopy__(self, memo):
        """a copy of a generator is a generator at the same position of the same stream (and is still recorded)"""
        g = RecGen(type(self.bit_generator)())
        g.bit_generator.state = self.bit_generator.state
        g._key, g._pos, g._id = self._key, self._pos, next(_gid)
        rec = _REC[0]
        if rec is not None:
            rec.emit('CopyGen', gen=g._id, of=self._id, key=list(self._key), pos=self._pos)
        return g

    __copy__ = lambda self: self.__deepcopy__({})

    def _log(self, family, shape, **params):
        rec = _REC[0]
        n = int(np.prod(shape)) if shape != () else 1
        if rec is not None:
            rec.emit('Draw', gen=self._id, key=list(self._key), pos=self._pos, n=n, family=family)
        return rec, n

    def _atoms(self, rec, family, shape, n, **params):
        if rec is None:
            return
        bparams = {k: np.broadcast_to(np.asarray(v, dtype=float), shape).flatten() if shape != () else
                   np.asarray(v, dtype=float).reshape(1) for k, v in params.items()}
        for i in range(n):
            a = dict(family=family, gen=self._id, key=list(self._key), pos=self._pos + i, stage=rec.stage[-1])
            for k, v in bparams.items():
                a[k] = float(v[i])
            rec.new_atom(a)

    def normal(self, loc=0.0, scale=1.0, size=None):
        shape = _shape(size, loc, scale)
        rec, n = self._log('normal', shape)
        if rec is not None and rec.script is not None:
            z = rec.z(n, self._key, self._pos).reshape(shape) if shape != () else rec.z(1, self._key, self._pos)[0]
            self._atoms(rec, 'normal', shape, n, loc=loc, scale=scale)
            self._pos += n
            return np.asarray(loc) + np.asarray(scale) * z
        self._atoms(rec, 'normal', shape, n, loc=loc, scale=scale)
        self._pos += n
        return super(RecGen, self).normal(loc, scale, size)

    def lognormal(self, mean=0.0, sigma=1.0, size=None):
        shape = _shape(size, mean, sigma)
        rec, n = self._log('lognormal', shape)
        if rec is not None and rec.script is not None:
            z = rec.z(n, self._key, self._pos).reshape(shape) if shape != () else rec.z(1, self._key, self._pos)[0]
            self._atoms(rec, 'lognormal', shape, n, loc=mean, scale=sigma)
            self._pos += n
            return np.exp(np.asarray(mean) + np.asarray(sigma) * z)
        self._atoms(rec, 'lognormal', shape, n, loc=mean, scale=sigma)
        self._pos += n
        return super(RecGen, self).lognormal(mean, sigma, size)

    def choice(self, a, size=None, replace=True, p=None, axis=0, shuffle=True):
        shape = _shape(size) if size is not None else ()
        rec, n = self._log('choice', shape)
        pop = int(a) if np.isscalar(a) else len(a)
        if rec is not None and rec.script is not None:
            idx = (np.abs(rec.z(n, self._key, self._pos)) * 7919).astype(int) % pop          # script value -> index
            for i in range(n):
                rec.new_atom(dict(family='choice', gen=self._id, key=list(self._key), pos=self._pos + i,
                                  stage=rec.stage[-1], n=pop, index=int(idx[i]),
                                  p=None if p is None else [float(x) for x in p]))
            self._pos += n
            arr = np.arange(pop) if np.isscalar(a) else np.asarray(a)
            out = arr[idx.reshape(shape)] if shape != () else arr[idx[0]]
            return out
        if rec is not None:
            for i in range(n):
                rec.atoms.append(dict(family='choice', gen=self._id, key=list(self._key), pos=self._pos + i,
                                      stage=rec.stage[-1], n=pop, index=None,
                                      p=None if p is None else [float(x) for x in p]))
        self._pos += n
        return super(RecGen, self).choice(a, size=size, replace=replace, p=p, axis=axis, shuffle=shuffle)

    def integers(self, low, high=None, size=None, dtype=np.int64, endpoint=False):
        shape = _shape(size) if size is not None else ()
        rec, n = self._log('integers', shape)
        if rec is not None:
            for i in range(n):
                rec.atoms.append(dict(family='integers', gen=self._id, key=list(self._key), pos=self._pos + i,
                                      stage=rec.stage[-1]))
        self._pos += n
        return super(RecGen, self).integers(low, high, size, dtype, endpoint)

    def uniform(self, low=0.0, high=1.0, size=None):
        shape = _shape(size, low, high)
        rec, n = self._log('uniform', shape)
        self._atoms(rec, 'uniform', shape, n, loc=low, scale=high)
        self._pos += n
        return super(RecGen, self).uniform(low, high, size)

    def standard_normal(self, size=None, dtype=np.float64, out=None):
        return self.normal(0.0, 1.0, size)

    def random(self, size=None, dtype=np.float64, out=None):
        return self.uniform(0.0, 1.0, size)


def _default_rng(seed=None):
    rec = _REC[0]
    if isinstance(seed, np.random.Generator):
        if rec is not None:
            rec.emit('Adopt', gen=getattr(seed, '_id', 0), key=list(getattr(seed, '_key', ('foreign',))))
        return seed
    if seed is None:
        key = ('fresh', next(_fresh))
    elif isinstance(seed, (int, np.integer)):
        key = ('seed', int(seed))
    else:
        return _ORIG['default_rng'](seed)
    g = RecGen(np.random.PCG64(seed))._setup(key)
    if rec is not None:
        rec.emit('MakeGen', gen=g._id, key=list(key))
    return g


class _GlobalState(object):
    seeded = None        # None = unknown / unseeded in this recording, else the seed
    pos = 0


_G = _GlobalState()


def _global_seed(seed=None):
    rec = _REC[0]
    if rec is not None:
        s = None if seed is None else int(seed)
        rec.emit('GlobalSeed', seed=s)
        _G.seeded = s
        _G.pos = 0
    return _ORIG['seed'](seed)


_SAVED_STATES = {}


def _state_key(state):
    try:
        return (state[0], np.asarray(state[1]).tobytes(), int(state[2]))
    except Exception:
        return None


def _global_get_state(*a, **kw):
    st = _ORIG['get_state'](*a, **kw)
    if _REC[0] is not None:
        k = _state_key(st)
        if k is not None:
            _SAVED_STATES[k] = (_G.seeded, _G.pos)
    return st


def _global_set_state(state):
    """restoring a saved state REWINDS the global stream to where it was saved: the positions after it are drawn again"""
    rec = _REC[0]
    if rec is not None:
        seeded, pos = _SAVED_STATES.get(_state_key(state), (None, 0))
        rec.emit('GlobalRestore', seed=seeded, pos=pos)
        _G.seeded, _G.pos = seeded, pos
    return _ORIG['set_state'](state)


def _global_fn(name):
    orig = getattr(np.random, name)

    def fn(*args, **kwargs):
        rec = _REC[0]
        out = orig(*args, **kwargs)
        if rec is not None:
            n = int(np.size(out))
            rec.emit('GlobalDraw', fn=name, n=n, seeded=_G.seeded, pos=_G.pos)
            for i in range(n):
                rec.atoms.append(dict(family='global:' + name, gen=0, key=['global', _G.seeded], pos=_G.pos + i,
                                      stage=rec.stage[-1]))
            _G.pos += n
        return out
    fn.__name__ = name
    return fn


class _TruncnormProxy(object):
    """scipy.stats.truncnorm as seen by chi._population_models: rvs draws from the global generator"""

    def __init__(self, orig):
        self._orig = orig

    def rvs(self, a, b, loc=0, scale=1, size=1, random_state=None):
        rec = _REC[0]
        out = self._orig.rvs(a=a, b=b, loc=loc, scale=scale, size=size, random_state=random_state)
        if rec is not None:
            n = int(np.size(out))
            rec.emit('GlobalDraw', fn='truncnorm.rvs', n=n, seeded=_G.seeded, pos=_G.pos)
            shape = np.shape(out)
            A = np.broadcast_to(np.asarray(a, dtype=float), shape).flatten()
            L = np.broadcast_to(np.asarray(loc, dtype=float), shape).flatten()
            S = np.broadcast_to(np.asarray(scale, dtype=float), shape).flatten()
            for i in range(n):
                rec.atoms.append(dict(family='truncnorm', gen=0, key=['global', _G.seeded], pos=_G.pos + i,
                                      stage=rec.stage[-1], loc=float(L[i]), scale=float(S[i]),
                                      lower=float(L[i] + A[i] * S[i]), value=float(np.asarray(out).flatten()[i])))
            _G.pos += n
        return out

    def __getattr__(self, name):
        return getattr(self._orig, name)


GLOBAL_FNS = ['normal', 'lognormal', 'uniform', 'choice', 'standard_normal', 'rand', 'randn', 'random', 'randint',
              'exponential', 'gamma', 'beta', 'multivariate_normal', 'random_sample', 'standard_t', 'permutation']


@contextlib.contextmanager
def recording(chi, script=None):
    """Install the wrappers (after chi, pints and scipy have been imported) for the duration of the block."""
    import chi._population_models as pm
    rec = Recorder(script)
    _ORIG['default_rng'] = np.random.default_rng
    _ORIG['seed'] = np.random.seed
    saved = {n: getattr(np.random, n) for n in GLOBAL_FNS if hasattr(np.random, n)}
    saved_tn = pm.truncnorm
    np.random.default_rng = _default_rng
    np.random.seed = _global_seed
    _ORIG['get_state'], _ORIG['set_state'] = np.random.get_state, np.random.set_state
    np.random.get_state, np.random.set_state = _global_get_state, _global_set_state
    _SAVED_STATES.clear()
    for n in saved:
        setattr(np.random, n, _global_fn(n))
    pm.truncnorm = _TruncnormProxy(saved_tn)
    _G.seeded, _G.pos = None, 0
    _REC[0] = rec
    try:
        yield rec
    finally:
        _REC[0] = None
        np.random.default_rng = _ORIG['default_rng']
        np.random.seed = _ORIG['seed']
        np.random.get_state, np.random.set_state = _ORIG['get_state'], _ORIG['set_state']
        for n, f in saved.items():
            setattr(np.random, n, f)
        pm.truncnorm = saved_tn


@contextlib.contextmanager
def stage(rec, name):
    rec.stage.append(name)
    try:
        yield
    finally:
        rec.stage.pop()
