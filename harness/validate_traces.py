"""Batch validation of recorded traces against a trace specification with TLC.

All traces go into one JSON file (a list of traces, each a list of event records); the trace module
has one initial state per trace and prints one verdict record per trace (first failing clause and
its line, or the empty clause).  Verdicts are total: TLC consumes every event of every trace.
"""
import json
import os

from . import tlc
from .common import WORK, MachineryError


def validate(module, traces, cfg_text, tag, workers=16, timeout=1800):
    os.makedirs(WORK, exist_ok=True)
    path = os.path.join(WORK, 'traces-%s-%d.json' % (tag, os.getpid()))
    with open(path, 'w') as f:
        json.dump(traces, f)
    cfg = tlc.write_cfg('%s-%s-%d.cfg' % (module, tag, os.getpid()), cfg_text)
    try:
        res = tlc.run(module, cfg, workers=workers, timeout=timeout, env={'TRACE_FILE': path}, tag='%s-%s' % (module, tag))
    finally:
        for p in (path,):
            try:
                os.remove(p)
            except OSError:
                pass
    verdicts = {r['tid']: r for r in res.records}
    if len(verdicts) != len(traces):
        raise MachineryError('trace validation: %d verdicts for %d traces\n%s' % (
            len(verdicts), len(traces), res.stdout_tail[-2000:]))
    return res, [verdicts[i + 1] for i in range(len(traces))]


MECH_CFG = '''CONSTANTS
  NInst = 1
  Regs = {1}
  OutSels = {0}
  OutSelsRen = {}
  OutSelsDose = {}
  ReAdmin = "keep"
  Design = "repaired"
  MaxOps = 1
SPECIFICATION TSpec
CHECK_DEADLOCK FALSE
INVARIANT EmitVerdict
'''


def validate_mech(traces, tag='mech'):
    return validate('Trace_MechModel', traces, MECH_CFG, tag)

RS_CFG = '''CONSTANTS
  Design = "thread"
  NSub = 1
  DrawsPerSub = 1
  SeedArgs = {"int"}
SPECIFICATION TSpec
CHECK_DEADLOCK FALSE
INVARIANT EmitVerdict
'''


def validate_streams(traces, tag='rs'):
    return validate('Trace_RandomStreams', traces, RS_CFG, tag)

SA_CFG = '''SPECIFICATION Spec
CHECK_DEADLOCK FALSE
INVARIANT EmitVerdict
'''


def validate_samples(records, tag='sa'):
    return validate('SampleAlgebra', records, SA_CFG, tag)

CL_CFG = '''SPECIFICATION TSpec
CHECK_DEADLOCK FALSE
INVARIANT EmitVerdict
'''


def validate_ctrl(traces, tag='cl'):
    return validate('Trace_CtrlLife', traces, CL_CFG, tag)


def validate_counts(traces, tag='cnt'):
    return validate('Trace_Counts', traces, CL_CFG, tag)
