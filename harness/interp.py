"""The interpretation table: the documented formula behind every density symbol of the spec.

The TLA+ specifications never compute a log-density; they compute *which terms are summed*
(term = density symbol applied to slots).  This module gives each symbol its meaning, typed from the
class docstrings of chi (not from chi's code), in a form that is analytic in its arguments so that
exact derivatives are obtained by complex-step differentiation (h = 1e-30: no subtractive
cancellation, accurate to machine precision).

``self_test()`` checks the table against itself: every density integrates to one (quadrature),
complex-step derivatives agree with mpmath's high-precision numerical derivative (when mpmath is
available) and moments agree with scipy.stats.
"""
import math

import numpy as np
from scipy import special

LOG2PI = math.log(2 * math.pi)
H = 1e-30


def _log(x):
    return np.log(x)


# ---------------------------------------------------------------------------------------------
# leaf densities (log), all analytic in their arguments

def gauss(y, mean, sd):
    """log N(y | mean, sd^2)"""
    return -0.5 * LOG2PI - _log(sd) - (y - mean) ** 2 / (2 * sd ** 2)


def err_gaussian(y, pred, par):
    (sigma,) = par
    return gauss(y, pred, sigma)


def err_multiplicative(y, pred, par):
    (sigma_rel,) = par
    return gauss(y, pred, sigma_rel * pred)


def err_camg(y, pred, par):
    sigma_base, sigma_rel = par
    return gauss(y, pred, sigma_base + sigma_rel * pred)


def err_lognormal(y, pred, par):
    """log-normal with E[y] = pred and sd of log y = sigma"""
    (sigma,) = par
    return -0.5 * LOG2PI - _log(sigma) - _log(y) \
        - (_log(y) - _log(pred) + sigma ** 2 / 2) ** 2 / (2 * sigma ** 2)


ERR = {
    'G': err_gaussian,
    'M': err_multiplicative,
    'C': err_camg,
    'L': err_lognormal,
}
ERR_NPAR = {'G': 1, 'M': 1, 'C': 2, 'L': 1}
ERR_NAMES = {'G': ['Sigma'], 'M': ['Sigma rel.'], 'C': ['Sigma base', 'Sigma rel.'], 'L': ['Sigma log']}


def err_class(kind, par, preds):
    """'finite' or '-inf' by the documented support rule (scale > 0; log-normal: outputs > 0)."""
    if any(np.real(p) <= 0 for p in par):
        return '-inf'
    if kind == 'L' and any(np.real(p) <= 0 for p in preds):
        return '-inf'
    return 'finite'


def pop_gauss(x, mu, sd):
    return gauss(x, mu, sd)


def pop_lognormal(x, mu_log, sd_log):
    """log-normal density of x with log x ~ N(mu_log, sd_log^2)"""
    return -0.5 * LOG2PI - _log(sd_log) - _log(x) - (_log(x) - mu_log) ** 2 / (2 * sd_log ** 2)


def _ndtr(z):
    # Phi(z) for complex z
    return 0.5 * special.erfc(-z / math.sqrt(2))


def pop_truncgauss(x, mu, sd):
    """Gaussian truncated to x > 0: N(x|mu,sd) / (1 - Phi(-mu/sd))"""
    return gauss(x, mu, sd) - _log(1 - _ndtr(-mu / sd))


def std_normal(x):
    return -0.5 * LOG2PI - x ** 2 / 2


# ---------------------------------------------------------------------------------------------
# complex-step differentiation

def grad(f, x):
    """Gradient of the analytic scalar function f at the real vector x by complex step."""
    x = np.asarray(x, dtype=float)
    g = np.zeros(len(x))
    for k in range(len(x)):
        z = x.astype(complex)
        z[k] += 1j * H
        g[k] = np.imag(f(z)) / H
    return g


def value(f, x):
    return float(np.real(f(np.asarray(x, dtype=complex))))


def close(a, b, rtol=1e-9, atol=1e-9):
    a = np.asarray(a, dtype=float)
    b = np.asarray(b, dtype=float)
    if a.shape != b.shape:
        return False
    fin = np.isfinite(a) & np.isfinite(b)
    if not np.array_equal(np.isfinite(a), np.isfinite(b)):
        return False
    if np.any(a[~fin] != b[~fin]) and not (np.all(np.isnan(a[~fin]) == np.isnan(b[~fin]))):
        return False
    scale = np.maximum(1.0, np.maximum(np.abs(a[fin]), np.abs(b[fin])))
    return bool(np.all(np.abs(a[fin] - b[fin]) <= atol + rtol * scale))


# ---------------------------------------------------------------------------------------------
# self test of the table (trusted base is checked against itself once per run)

def self_test():
    from scipy import integrate, stats
    problems = []

    def integ(f, lo, hi):
        v, _ = integrate.quad(lambda t: math.exp(np.real(f(t))), lo, hi, limit=200)
        return v
    for kind, par, pred in [('G', [0.7], 1.3), ('M', [0.4], 2.1), ('C', [0.3, 0.2], 1.7)]:
        v = integ(lambda y: ERR[kind](y, pred, par), -np.inf, np.inf)
        if abs(v - 1) > 1e-7:
            problems.append('%s integrates to %r' % (kind, v))
    v = integ(lambda y: err_lognormal(y, 1.9, [0.6]), 0, np.inf)
    if abs(v - 1) > 1e-7:
        problems.append('L integrates to %r' % v)
    m, _ = integrate.quad(lambda y: y * math.exp(err_lognormal(y, 1.9, [0.6])), 0, np.inf)
    if abs(m - 1.9) > 1e-6:
        problems.append('L mean %r' % m)
    v = integ(lambda x: pop_lognormal(x, 0.3, 0.5), 0, np.inf)
    if abs(v - 1) > 1e-7:
        problems.append('pop LN integrates to %r' % v)
    v = integ(lambda x: pop_truncgauss(x, 0.4, 0.9), 0, np.inf)
    if abs(v - 1) > 1e-7:
        problems.append('pop TG integrates to %r' % v)
    if abs(pop_truncgauss(0.8, 0.4, 0.9) - stats.truncnorm.logpdf(0.8, -0.4 / 0.9, np.inf, 0.4, 0.9)) > 1e-12:
        problems.append('TG vs scipy')
    if abs(pop_lognormal(0.8, 0.4, 0.9) - stats.lognorm.logpdf(0.8, 0.9, scale=math.exp(0.4))) > 1e-12:
        problems.append('LN vs scipy')
    # complex step against central differences in extended precision
    try:
        import mpmath
        mpmath.mp.dps = 40
        f = lambda m: pop_truncgauss(0.8, m[0], m[1])  # noqa
        g = grad(f, [0.4, 0.9])

        def F(mu, sd):
            z = -mu / sd
            return (-mpmath.log(2 * mpmath.pi) / 2 - mpmath.log(sd) - (mpmath.mpf('0.8') - mu) ** 2 / (2 * sd ** 2)
                    - mpmath.log(1 - mpmath.ncdf(z)))
        g0 = mpmath.diff(lambda mu: F(mu, mpmath.mpf('0.9')), mpmath.mpf('0.4'))
        g1 = mpmath.diff(lambda sd: F(mpmath.mpf('0.4'), sd), mpmath.mpf('0.9'))
        if abs(float(g0) - g[0]) > 1e-10 or abs(float(g1) - g[1]) > 1e-10:
            problems.append('complex step vs mpmath: %r %r %r' % (g, g0, g1))
    except ImportError:
        pass
    return problems
