"""spec -> code for module InferenceIO (C18): for every composition TLC enumerates a real
hierarchical posterior is built; raw chains filled with integer codes of (chain, draw, position) go
through SamplingController._format_chains and every dataset cell must decode to the position the
specification assigns to (variable, individual); initial points are checked for dimension, seed
reproducibility, provenance (individual-level entries drawn at the population values of the same
sample) and finite prior / population terms; optimisation tables pair estimates with names, IDs,
scores and runs; the dataset is fed back to PosteriorPredictiveModel and
compute_pointwise_loglikelihood and the selected columns are observed at the probe model."""
import warnings

import numpy as np

from . import probes
from .common import scribble, digest
from . import interp
from .replay_poplayout import build, relabel, features as pl_features

chi = probes.chi
import pints  # noqa: E402


class StubOptimiser(pints.Optimiser):
    """returns its starting point as the optimum after one evaluation"""

    def __init__(self, x0, sigma0=None, boundaries=None):
        super(StubOptimiser, self).__init__(x0, sigma0, boundaries)
        self._xs = np.array(x0, dtype=float)
        self._f = np.inf
        self._done = False

    def ask(self):
        return [self._xs.copy()]

    def tell(self, fx):
        self._f = float(fx[0])

    def x_best(self):
        return self._xs.copy()

    def xbest(self):
        return self._xs.copy()

    def f_best(self):
        return self._f

    def fbest(self):
        return self._f

    def x_guessed(self):
        return self._xs.copy()

    def f_guessed(self):
        return self._f

    def name(self):
        return 'stub'

    def running(self):
        return True

    def needs_sensitivities(self):
        return False


class BreakingStub(StubOptimiser):
    """the SECOND optimiser that is instantiated raises when asked for points (a run that breaks inside pints)"""
    count = 0

    def __init__(self, x0, sigma0=None, boundaries=None):
        super(BreakingStub, self).__init__(x0, sigma0, boundaries)
        BreakingStub.count += 1
        self._breaks = BreakingStub.count == 2

    def ask(self):
        if self._breaks:
            raise RuntimeError('this run breaks')
        return super(BreakingStub, self).ask()



def make_prior(names):
    pri = []
    for nm in names:
        if nm.startswith(('Std.', 'Log std.', 'Sigma ')) or ('Std.' in nm and 'Cov.' not in nm and nm.split(' ')[0] == 'Std.'):
            pri.append(pints.LogNormalLogPrior(-1.0, 0.2))
        elif 'Cov.' in nm:
            pri.append(pints.GaussianLogPrior(0.0, 0.02))
        elif nm.startswith('Log mean'):
            pri.append(pints.GaussianLogPrior(0.0, 0.1))
        else:
            pri.append(pints.LogNormalLogPrior(0.0, 0.1))
    return pints.ComposedLogPrior(*pri) if len(pri) > 1 else pri[0]


def replay_case(arg):
    rec, seed = arg
    fails, cnt = [], {'cases': 1}
    cfg0 = {k: v for k, v in rec.items() if not k.startswith('_')}
    rec = dict(cfg0)
    key = digest(cfg0)
    rng = np.random.default_rng([seed, int(key, 16) % (2 ** 31)])
    custom_ids = relabel(rec, key)
    shim = dict(rec, fixed=[], topfull=[s for s in rec['layout'] if s[0] != 'eta'],
                topnamesfull=rec['names'][rec['nbottom']:])
    feats = pl_features(shim)
    for f in feats:
        cnt['feat_' + f] = 1

    def fail(clause, manifestation, detail):
        fails.append(dict(case=dict(config=cfg0), clause=clause, manifestation=manifestation, detail=detail, features=feats))
    if custom_ids:
        feats.append('custom_ids_not_sorted')
        cnt['feat_custom_ids_not_sorted'] = 1
    n = rec['nbottom'] + rec['ntop']
    if rec['ntop'] == 0:
        return fails, cnt
    try:
        with warnings.catch_warnings():
            warnings.simplefilter('ignore')
            hll, pop, lls, data, covs, fixed_vals, vals = build(shim, rng, 'io' + key)
            post = chi.HierarchicalLogPosterior(hll, make_prior(rec['names'][rec['nbottom']:]))
            scribble(post)
    except Exception as e:
        fail('Construct', type(e).__name__, repr(e))
        return fails, cnt
    # ---- initial points ---------------------------------------------------------------------
    calls = []
    orig_sample = pop.sample

    def rec_sample(*a, **kw):
        calls.append(np.array(kw.get('parameters', a[0] if a else None), dtype=float).copy())
        return orig_sample(*a, **kw)
    init = None
    # the seed of the initial points: zero (a legal seed that is falsy), an ordinary int or a NumPy integer, by content
    iseed = [0, 5 + seed, np.int64(5 + seed)][int(key, 16) % 3]
    try:
        with warnings.catch_warnings():
            warnings.simplefilter('ignore')
            pop.sample = rec_sample
            try:
                init = np.asarray(post.sample_initial_parameters(n_samples=3, seed=iseed), dtype=float)
            finally:
                del pop.sample
            again = np.asarray(post.sample_initial_parameters(n_samples=3, seed=iseed), dtype=float)
            np.random.seed(99)
            np.random.normal(size=3)
            third = np.asarray(post.sample_initial_parameters(n_samples=3, seed=iseed), dtype=float)
    except Exception as e:
        fail('SampleInitial', type(e).__name__, repr(e))
    if init is not None:
        cnt['evaluations'] = cnt.get('evaluations', 0) + 3
        if init.shape != (3, n):
            fail('SampleInitial', 'shape', dict(got=list(init.shape), expected=[3, n]))
        else:
            if not (np.array_equal(init, again) and np.array_equal(init, third)):
                fail('SampleInitial', 'not_reproducible', None)
            if rec['nbottom'] > 0:
                if len(calls) != 3 or any(not np.array_equal(c, init[s, rec['nbottom']:]) for s, c in enumerate(calls)):
                    fail('SampleInitial', 'provenance', dict(calls=[c.tolist() for c in calls],
                                                             tops=init[:, rec['nbottom']:].tolist()))
            for s in range(3):
                top = init[s, rec['nbottom']:]
                with warnings.catch_warnings():
                    warnings.simplefilter('ignore')
                    lp = post.get_log_prior()(top)
                    eta = pop.compute_individual_parameters(parameters=top, eta=init[s, :rec['nbottom']],
                                                            covariates=(covs if rec['ncov'] > 0 else None), return_eta=True)
                    pl = pop.compute_log_likelihood(top, eta, covariates=(covs if rec['ncov'] > 0 else None))
                if not (np.isfinite(lp) and np.isfinite(pl)):
                    fail('SampleInitial', 'not_finite', dict(sample=s, log_prior=float(lp), population=float(pl)))
                    break
    # ---- chain formatting ------------------------------------------------------------------------
    ds = None
    try:
        with warnings.catch_warnings():
            warnings.simplefilter('ignore')
            ctrl = chi.SamplingController(post, seed=3)
            nch, ndr = 2, 3
            raw = np.zeros((nch, ndr, n))
            for c in range(nch):
                for d in range(ndr):
                    raw[c, d, :] = 10000 * (c + 1) + 1000 * (d + 1) + np.arange(1, n + 1)
            ds = ctrl._format_chains(raw.copy(), None)
    except Exception as e:
        fail('FormatChains', type(e).__name__, repr(e))
    if ds is not None:
        seen = {}
        uids = rec['uniqueids']
        for name in ds.data_vars:
            arr = ds[name]
            if 'individual' in arr.dims:
                coords = [str(x) for x in arr.individual.values]
                if coords != uids:
                    fail('IO_ExactlyOnce', 'individual_coordinates', dict(variable=name, got=coords, expected=uids))
                    continue
                for i, uid in enumerate(coords):
                    v = arr.sel(individual=uid).transpose('chain', 'draw').values
                    _decode(v, name, i + 1, seen, fail)
            else:
                _decode(arr.transpose('chain', 'draw').values, name, 0, seen, fail)
        exp = {k + 1: (c[0], c[1]) for k, c in enumerate(rec['cells'])}
        if not fails and seen != exp:
            wrong = {k: (seen.get(k), exp[k]) for k in exp if seen.get(k) != exp[k]}
            fail('IO_ExactlyOnce', 'cells', dict(wrong=dict(list(wrong.items())[:5])))
        cnt['evaluations'] = cnt.get('evaluations', 0) + 1
    # ---- optimisation table ------------------------------------------------------------------------
    try:
        with warnings.catch_warnings():
            warnings.simplefilter('ignore')
            oc = chi.OptimisationController(post, seed=7)
            oc.set_n_runs(2)
            oc.set_parallel_evaluation(False)
            oc.set_optimiser(StubOptimiser)
            table = oc.run(n_max_iterations=1)
            x0 = np.asarray(post.sample_initial_parameters(n_samples=2, seed=7), dtype=float)
        if len(table) != 2 * n:
            fail('ResultTable', 'rows', dict(got=len(table), expected=2 * n))
        else:
            for run in (1, 2):
                t = table[table['Run'] == run]
                ids = [('None' if (i is None or (isinstance(i, float) and np.isnan(i))) else i) for i in t['ID']]
                if list(t['Parameter']) != rec['names'] or ids != rec['ids']:
                    fail('ResultTable', 'labels', dict(run=run, names=list(t['Parameter'])[:6], ids=ids[:6]))
                    break
                if not np.allclose(np.asarray(t['Estimate'], dtype=float), x0[run - 1], rtol=0, atol=0, equal_nan=True):
                    fail('ResultTable', 'estimates', dict(run=run))
                    break
                # ... and with the score of THAT run: the log-posterior at the run's estimate
                with warnings.catch_warnings():
                    warnings.simplefilter('ignore')
                    sc_exp = float(post(x0[run - 1].copy()))
                sc_got = np.asarray(t['Score'], dtype=float)
                if not (len(set(sc_got.tolist())) <= 1 and (interp.close(sc_got[0], sc_exp) or
                                                              (not np.isfinite(sc_exp) and not np.isfinite(sc_got[0])))):
                    fail('ResultTable', 'score', dict(run=run, got=sc_got[:2].tolist(), expected=sc_exp))
                    break
        # the same two runs searched in a TRANSFORMED space (every parameter scaled): starting points and estimates are
        # reported in the parameter space, under the same labels
        with warnings.catch_warnings():
            warnings.simplefilter('ignore')
            oct_ = chi.OptimisationController(post, seed=7)
            oct_.set_n_runs(2)
            oct_.set_parallel_evaluation(False)
            oct_.set_optimiser(StubOptimiser)
            oct_.set_transform(pints.ScalingTransformation(1.0 / (2.0 + np.arange(n))))
            tt = oct_.run(n_max_iterations=1)
        for run in (1, 2):
            t = tt[tt['Run'] == run]
            if list(t['Parameter']) != rec['names'] or len(t) != n or \
                    not np.allclose(np.asarray(t['Estimate'], dtype=float), x0[run - 1], rtol=1e-12, atol=1e-12, equal_nan=True):
                fail('ResultTable', 'estimates_with_a_transform', dict(run=run, got=np.asarray(t['Estimate'], dtype=float)[:4].tolist(),
                                                                       expected=x0[run - 1][:4].tolist()))
                break
        cnt['evaluations'] = cnt.get('evaluations', 0) + 1
        # a run that BREAKS after a run that succeeded: its rows carry its own run number and NaN estimates / score
        # (documented), not the numbers of the run before it
        with warnings.catch_warnings():
            warnings.simplefilter('ignore')
            oc3 = chi.OptimisationController(post, seed=7)
            oc3.set_n_runs(3)
            oc3.set_parallel_evaluation(False)
            BreakingStub.count = 0
            oc3.set_optimiser(BreakingStub)
            t3 = oc3.run(n_max_iterations=1)
            x3 = np.asarray(post.sample_initial_parameters(n_samples=3, seed=7), dtype=float)
        for run in (1, 2, 3):
            t = t3[t3['Run'] == run]
            est, sc = np.asarray(t['Estimate'], dtype=float), np.asarray(t['Score'], dtype=float)
            if len(t) != n:
                fail('ResultTable', 'rows_with_a_broken_run', dict(run=run, got=len(t), expected=n))
                break
            if run == 2:
                if not (np.all(np.isnan(est)) and np.all(np.isnan(sc))):
                    fail('ResultTable', 'broken_run_not_nan', dict(run=run, estimates=est[:4].tolist(), score=sc[:1].tolist()))
            elif not np.allclose(est, x3[run - 1], rtol=0, atol=0, equal_nan=True):
                fail('ResultTable', 'estimates_with_a_broken_run', dict(run=run))
        cnt['evaluations'] = cnt.get('evaluations', 0) + 1
    except Exception as e:
        fail('ResultTable', type(e).__name__, repr(e))
    # ---- read back: posterior predictive model and pointwise log-likelihood select the matching columns ----------
    subs = rec['subs']
    simple = all(m['kind'] != 'H' and m['cen'] and m['cov'] == 0 for m in subs)
    if ds is not None and simple and not fails and rec['ndim'] >= 1:
        try:
            with warnings.catch_warnings():
                warnings.simplefilter('ignore')
                ll_names = lls[0].get_parameter_names()
                pmap = {}
                for d_, nm in enumerate(ll_names):
                    if (d_ + 1) not in rec['hdims']:
                        pmap[nm] = [x for x in rec['names'][rec['nbottom']:] if x.startswith('Pooled ')][
                            sum(1 for q in range(d_) if (q + 1) not in rec['hdims'])]
                # a map whose values are also keys: two individual-level parameters read each other's column (a map is
                # applied to all names AT ONCE, not entry by entry)
                hnames = [nm for d_, nm in enumerate(ll_names) if (d_ + 1) in rec['hdims']]
                if len(hnames) >= 2 and int(key, 16) % 2 == 0:
                    pmap[hnames[0]], pmap[hnames[1]] = hnames[1], hnames[0]
                    cnt['swap_maps'] = 1
                tagm = 'iorb' + key
                pm = chi.PredictiveModel(probes.ProbeMech(rec['ndim'] - 1, 1, tag=tagm), chi.GaussianErrorModel())
                ppm = chi.PosteriorPredictiveModel(pm, ds, param_map=pmap)
                # (every other case the dataset is read through an AVERAGED model over two posterior predictive models: the
                # individual that is asked for is the individual whose columns are selected, there too)
                reader = ppm
                if int(key, 16) % 2 == 1:
                    reader = chi.PAMPredictiveModel([ppm, chi.PosteriorPredictiveModel(pm, ds, param_map=pmap)], weights=[1, 1])
                    cnt['read_back_through_an_averaged_model'] = 1
                for i, uid in enumerate(rec['uniqueids']):
                    probes.clear(tagm)
                    reader.sample([1.0, 2.0], n_samples=2, individual=uid, seed=1)
                    sims = [e for e in probes.log_of(tagm) if e[0] == 'simulate']
                    if len(sims) != 2:
                        fail('ReadBack', 'n_simulations', dict(got=len(sims)))
                        break
                    for ev in sims:
                        psi = ev[1]
                        codes = [int(round(v)) for v in psi]
                        cds = {(c // 10000, (c // 1000) % 10) for c in codes}
                        if len(cds) > 1:
                            fail('ReadBack', 'not_one_joint_draw', dict(codes=codes))
                            break
                        for d_, c in enumerate(codes):
                            k = c % 1000
                            cell = rec['cells'][k - 1]
                            want = pmap.get(ll_names[d_], ll_names[d_])
                            if cell[0] != want or (cell[1] not in (0, i + 1)):
                                fail('ReadBack', 'wrong_column', dict(individual=uid, dim=d_ + 1, cell=cell, want=want))
                                break
                    if fails:
                        break
                if not fails:
                    pw = chi.compute_pointwise_loglikelihood(lls[0], ds, individual=rec['uniqueids'][0], param_map=pmap)
                    cells = {(c[0], c[1]): k for k, c in enumerate(rec['cells'])}
                    for c in range(2):
                        for d in range(3):
                            vec = []
                            for d_, nm in enumerate(ll_names):
                                kk = cells[(pmap.get(nm, nm), 1)] if (d_ + 1) in rec['hdims'] else cells[(pmap[nm], 0)]
                                vec.append(raw[c, d, kk])
                            expv = lls[0].compute_pointwise_ll(np.array(vec))
                            if not np.allclose(np.asarray(pw.values[c, d], dtype=float), expv, equal_nan=True):
                                fail('ReadBack', 'pointwise', dict(chain=c, draw=d))
                                break
                if not fails:
                    # the same dataset with its dimensions STORED in another order (draw, individual, chain -- the labels say
                    # which is which): the same cells are selected
                    ds_t = ds.transpose('draw', 'individual', 'chain') if 'individual' in ds.dims else ds.transpose('draw', 'chain')
                    pw_t = chi.compute_pointwise_loglikelihood(lls[0], ds_t, individual=rec['uniqueids'][0], param_map=pmap)
                    a_, b_ = np.asarray(pw.transpose('chain', 'draw', ...).values, dtype=float), \
                        np.asarray(pw_t.transpose('chain', 'draw', ...).values, dtype=float)
                    if a_.shape != b_.shape or not np.allclose(a_, b_, equal_nan=True):
                        fail('ReadBack', 'pointwise_of_a_dataset_stored_in_another_dimension_order', None)
                cnt['readbacks'] = 1
        except Exception as e:
            fail('ReadBack', type(e).__name__, repr(e))
    return fails, cnt


def _decode(v, name, ind, seen, fail):
    nch, ndr = v.shape
    ks = set()
    for c in range(nch):
        for d in range(ndr):
            code = int(round(float(v[c, d])))
            if code // 10000 != c + 1 or (code // 1000) % 10 != d + 1:
                fail('IO_ExactlyOnce', 'chain_draw_misaligned', dict(variable=name, individual=ind, code=code, chain=c, draw=d))
                return
            ks.add(code % 1000)
    if len(ks) != 1:
        fail('IO_ExactlyOnce', 'mixed_positions', dict(variable=name, individual=ind, positions=sorted(ks)))
        return
    k = ks.pop()
    if k in seen:
        fail('IO_ExactlyOnce', 'position_twice', dict(position=k))
        return
    seen[k] = (name, ind)
