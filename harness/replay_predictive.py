"""spec -> code for module Predictive (C15): every request TLC enumerates (model kind x outputs x
unsorted times with repeats x sample size x covariates x regimen) is executed on the real predictive
models.  Labels: the returned table must carry exactly the label sequence the specification lists
(plus covariate rows and the dose rows of Dosing's Table).  Provenance: posterior datasets are
filled with integer codes so that every parameter vector that reaches the mechanistic model shows
which (chain, draw, individual) it came from (JointRow); population-predictive individuals are
identified under scripted generators and their laws checked by TLC (SampleAlgebra, stage 1); the
measurement stage is identified with the first stage held fixed (stage 2)."""
import os
import warnings

import numpy as np
import pandas as pd

from . import refsim, recgen, interp
from .common import scribble, digest

refsim.install()
from . import probes  # noqa: E402

chi = probes.chi
import pints  # noqa: E402
import xarray as xr  # noqa: E402

LIB = os.path.join(os.path.dirname(os.path.abspath(chi.__file__)), 'library', 'model_library')
# a FINITE periodic regimen whose last dose (t = 0.75) lies before the latest requested time (1.5): the dose rows of a table are
# the doses that were given, not one per period up to the final time
REG = dict(dose=2.0, start=0.25, duration=0.25, period=0.5, num=2)


def mech_model(nout, regimen, tag, set_reg=True):
    if regimen:
        m = chi.PKPDModel(os.path.join(LIB, 'pk_one_comp.xml'))
        m.set_administration('central', direct=True)
        m.set_outputs(['central.drug_amount', 'central.drug_concentration'][:nout])
        if set_reg:
            m.set_dosing_regimen(**REG)
        return m, 3
    return probes.ProbeMech(2, nout, tag=tag), 2


def error_models(nout):
    return [chi.GaussianErrorModel(), chi.LogNormalErrorModel(), chi.MultiplicativeGaussianErrorModel()][:nout]


def coded_posterior(names, ids, nch=2, ndr=3, store_as=None):
    data = {}
    store_as = store_as or {}
    for k, n in enumerate(names):
        arr = np.zeros((nch, ndr, len(ids)))
        for c in range(nch):
            for d in range(ndr):
                for i in range(len(ids)):
                    arr[c, d, i] = 1000 * (k + 1) + 100 * (c + 1) + 10 * (d + 1) + (i + 1)
        data[store_as.get(n, n)] = (('chain', 'draw', 'individual'), arr)
    return xr.Dataset(data, coords={'chain': list(range(nch)), 'draw': list(range(ndr)), 'individual': list(ids)})


def table_labels(df, obs_names):
    rows = []
    for _, r in df.iterrows():
        if pd.isna(r.get('Observable')) or r['Observable'] not in obs_names:
            continue
        rows.append([int(r['ID']), float(r['Time']), obs_names.index(r['Observable']) + 1])
    return rows


def replay_case(arg):
    rec, seed = arg
    fails, cnt = [], {'cases': 1}
    key = digest(rec)
    rng = np.random.default_rng([seed, int(key, 16) % (2 ** 31)])
    kind, nout, ns, ncov = rec['kind'], rec['nout'], rec['nsamp'], rec['ncov']
    feats = ['kind_' + kind]
    if rec['times'] != rec['sorted']:
        feats.append('unsorted_times')
    if len(set(rec['times'])) < len(rec['times']):
        feats.append('repeated_times')
    if rec['regimen']:
        feats.append('with_regimen')
    for f in feats:
        cnt['feat_' + f] = 1

    def fail(clause, manifestation, detail):
        fails.append(dict(case=dict(config=rec), clause=clause, manifestation=manifestation, detail=detail, features=feats))
    if nout > 2 and rec['regimen']:
        cnt['three_outputs_with_regimen_not_replayed'] = 1        # (the dosed library model has two outputs)
        return fails, cnt
    times = [0.5 * t for t in rec['times']]
    # the requested times arrive as a list or -- every other case -- as a NumPy array (which an in-place operation of the
    # callee would alter in the caller's hands)
    times_in = np.array(times) if int(key, 16) % 2 == 0 else list(times)
    tag = 'pr' + key
    try:
        with warnings.catch_warnings():
            warnings.simplefilter('ignore')
            mech, nm = mech_model(nout, rec['regimen'], tag)
            pm = chi.PredictiveModel(mech, error_models(nout))
            scribble(pm)
            names = pm.get_parameter_names()
            obs_names = pm.get_output_names()
            params = [1.2, 0.9, 0.7][:nm] + [0.3, 0.2, 0.25][:nout]
            covs = None
            probes.clear(tag)
            if kind == 'predictive':
                df = pm.sample(params, times_in, n_samples=ns, seed=int(rng.integers(100)), include_regimen=rec['regimen'])
            elif kind == 'population':
                subs = [chi.LogNormalModel(), chi.PooledModel(n_dim=len(names) - 2), chi.GaussianModel(centered=False)]
                if ncov:
                    subs[0] = chi.CovariatePopulationModel(chi.LogNormalModel(), chi.LinearCovariateModel(n_cov=ncov))
                pop = chi.ComposedPopulationModel(subs)
                pop.set_n_ids(2)                   # used with another number of individuals before
                ppm = chi.PopulationPredictiveModel(pm, pop)
                pnames = ppm.get_parameter_names()
                pvals = []
                for n_ in pnames:
                    pvals.append(0.05 if 'Cov.' in n_ else 0.2 if n_.startswith('Log std') else 0.03 if n_.startswith('Std') else
                                 0.1 if n_.startswith('Log mean') else 0.5 if n_.startswith('Mean') else 0.8)
                if ncov:
                    # (one covariate row for everybody or one per sample; with two covariates always one per sample, all
                    # values distinct)
                    covs = np.round(rng.uniform(0, 1, size=(ns if (rng.integers(2) or ncov >= 2) else 1, ncov)), 2)
                    if ncov >= 2:
                        covs = np.round(0.1 + 0.1 * np.arange(covs.size).reshape(covs.shape) + 0.01 * covs, 3)
                df = ppm.sample(pvals, times_in, n_samples=ns, seed=int(rng.integers(100)), include_regimen=rec['regimen'],
                                covariates=covs)
            elif kind == 'prior':
                prior = pints.ComposedLogPrior(*[pints.UniformLogPrior(0.5 * p, 1.5 * p) for p in params])
                df = chi.PriorPredictiveModel(pm, prior).sample(times_in, n_samples=ns, seed=int(rng.integers(100)),
                                                                include_regimen=rec['regimen'])
            elif kind == 'posteriorpop':
                # the posterior holds the POPULATION parameters (chain, draw); every dimension is pooled, so the coded
                # population values reach the mechanistic model unchanged and show which row was drawn; one variable of the
                # dataset carries another name (param_map)
                ppm0 = chi.PopulationPredictiveModel(pm, chi.ComposedPopulationModel([chi.PooledModel(n_dim=len(names))]))
                pnames = ppm0.get_parameter_names()
                post = coded_posterior(pnames, ['a'])
                post = post.isel(individual=0, drop=True).rename({pnames[0]: 'renamed in the dataset'})
                df = chi.PosteriorPredictiveModel(ppm0, post, param_map={pnames[0]: 'renamed in the dataset'}).sample(
                    times_in, n_samples=ns, seed=int(rng.integers(100)), include_regimen=rec['regimen'])
                who = 'a'
            else:
                ids = ['a', 'b', 'c']
                # every other case: the dataset stores the mechanistic parameters under each other's names (a cyclic shift) and
                # param_map states so -- the map is a FUNCTION from model names to dataset names, applied once to each name
                pmap_ = None
                if (int(key, 16) // 3) % 2 == 0 and nm >= 2:
                    mn = list(names[:nm])
                    pmap_ = dict(zip(mn, mn[1:] + mn[:1]))
                    feats.append('param_map_permutes_names')
                    cnt['feat_param_map_permutes_names'] = 1
                post = coded_posterior(names, ids, store_as=pmap_)
                ppm = chi.PosteriorPredictiveModel(pm, post, param_map=pmap_)
                who = ids[int(rng.integers(3))]
                # every other case the object has been used for ANOTHER individual first: what it draws for `who` afterwards
                # are draws of `who`
                used_before = (int(key, 16) // 11) % 2 == 0
                other = [i_ for i_ in ids if i_ != who][0]
                if used_before and kind == 'posterior':
                    ppm.sample(times_in, n_samples=1, individual=other, seed=2)
                    probes.clear(tag)
                    cnt['object_used_for_another_individual_first'] = 1
                if kind == 'posterior':
                    df = ppm.sample(times_in, n_samples=ns, individual=who, seed=int(rng.integers(100)),
                                    include_regimen=rec['regimen'])
                else:
                    # two member models, or three (every other case): the blocks of sample IDs follow one another
                    members = [ppm, chi.PosteriorPredictiveModel(pm, post, param_map=pmap_)]
                    if int(key, 16) % 2:
                        members.append(chi.PosteriorPredictiveModel(pm, post, param_map=pmap_))
                        feats.append('three_member_models')
                        cnt['feat_three_member_models'] = 1
                    via_pam = bool(rec['regimen']) and (int(key, 16) // 5) % 2 == 0
                    if via_pam:
                        # the member models wrap DISTINCT predictive models without a regimen; the regimen is set through the
                        # averaged model and must reach every member (every simulated individual is dosed)
                        members = [chi.PosteriorPredictiveModel(
                            chi.PredictiveModel(mech_model(nout, True, tag, set_reg=False)[0], error_models(nout)), post,
                            param_map=pmap_) for _ in members]
                        feats.append('regimen_set_through_the_averaged_model')
                        cnt['feat_regimen_set_through_the_averaged_model'] = 1
                    # the weights arrive as a list or -- every other case -- as a float array of the caller's, which is the
                    # caller's afterwards too (unchanged, and not shared with the model)
                    w_in = [2, 1, 1][:len(members)] if (int(key, 16) // 7) % 2 else np.array([2.0, 1.0, 1.0][:len(members)])
                    pam = chi.PAMPredictiveModel(members, weights=w_in)
                    if isinstance(w_in, np.ndarray):
                        if not np.array_equal(w_in, np.array([2.0, 1.0, 1.0][:len(members)])):
                            fail('NoInputWrite', 'weights_modified', dict(now=w_in.tolist()))
                        w_in[...] = w_in[::-1].copy()              # the caller re-uses the buffer for something else
                    if via_pam:
                        pam.set_dosing_regimen(**REG)
                    if used_before:
                        pam.sample(times_in, n_samples=2, individual=other, seed=2)
                        probes.clear(tag)
                        cnt['object_used_for_another_individual_first'] = 1
                    refsim.clear_events()
                    df = pam.sample(times_in, n_samples=ns, individual=who, seed=int(rng.integers(100)),
                                    include_regimen=rec['regimen'])
    except Exception as e:
        fail('Evaluable', type(e).__name__, repr(e))
        return fails, cnt
    cnt['evaluations'] = 1
    if kind == 'pam' and rec['regimen']:
        # what every simulated individual received: the protocol the solver ran with
        want = sorted(refsim.protocol_events(mech_model(nout, True, tag)[0].dosing_regimen()))
        runs = [sorted(e['protocol']) for e in refsim.EVENTS if e['e'] == 'Run']
        if len(runs) != ns or any(r_ != want for r_ in runs):
            fail('DoseRows', 'regimen_not_applied_to_every_sample', dict(n_runs=len(runs), expected_runs=ns,
                                                                       undosed=sum(1 for r_ in runs if r_ != want)))
    if list(times_in) != times:
        fail('NoInputWrite', 'times_modified', dict(passed_as=type(times_in).__name__, now=list(times_in), before=times))
    # ---- labels ---------------------------------------------------------------------------
    got = table_labels(df, obs_names)
    exp = [[l[0], 0.5 * l[1], l[2]] for l in rec['labels']]
    if kind == 'pam':
        # the averaged model concatenates the samples of its member models: IDs are unique and contiguous,
        # the order of the blocks follows the models, so compare as multisets and check the order inside each ID
        if sorted(map(tuple, got)) != sorted(map(tuple, exp)):
            fail('LabelsOK', 'label_multiset', dict(got=got[:8], expected=exp[:8]))
    elif got != exp:
        if sorted(map(tuple, got)) == sorted(map(tuple, exp)):
            fail('LabelsOK', 'label_order', dict(got=got[:8], expected=exp[:8]))
        else:
            fail('LabelsOK', 'labels', dict(got=got[:8], expected=exp[:8]))
    vals = df[df['Observable'].isin(obs_names)]['Value'].to_numpy(dtype=float)
    if len(vals) != rec['nrows'] or not np.all(np.isfinite(vals) | (kind in ('posterior', 'pam', 'posteriorpop'))):
        fail('LabelsOK', 'values', dict(n=len(vals), expected=rec['nrows']))
    for (i_, o_), g in pd.DataFrame(got, columns=['i', 't', 'o']).groupby(['i', 'o']):
        if list(g['t']) != sorted(g['t']):
            fail('AscendingOK', 'times_not_ascending', dict(id=int(i_), output=int(o_), times=list(g['t'])))
            break
    if kind == 'population' and ncov:
        cnames = ['Cov. %d' % (c + 1) for c in range(ncov)]
        crow = df[df['Observable'].isin(cnames)]
        if len(crow) != ns * ncov or not crow['Time'].isna().all() or sorted(crow['ID'].astype(int)) != sorted(list(range(1, ns + 1)) * ncov):
            fail('LabelsOK', 'covariate_rows', dict(n=len(crow)))
        else:
            full = np.broadcast_to(covs, (ns, ncov))
            for _, r in crow.iterrows():
                if abs(r['Value'] - full[int(r['ID']) - 1, cnames.index(r['Observable'])]) > 1e-12:
                    fail('LabelsOK', 'covariate_values', None)
                    break
    if rec['regimen']:
        dose = df[df['Dose'].notna()] if 'Dose' in df.columns else df.iloc[0:0]
        tmax = max(times)
        exp_times = [REG['start'] + k * REG['period'] for k in range(REG['num']) if REG['start'] + k * REG['period'] <= tmax]
        per_id = kind in ('predictive', 'population')
        n_exp = len(exp_times) * (ns if per_id else 1)
        if len(dose) != n_exp or sorted(set(np.round(dose['Time'].astype(float), 9))) != sorted(set(np.round(exp_times, 9))):
            fail('DoseRows', 'dose_rows', dict(got=len(dose), expected=n_exp, times=sorted(set(dose['Time']))[:5]))
        elif per_id and sorted(dose['ID'].astype(int)) != sorted(list(range(1, ns + 1)) * len(exp_times)):
            fail('DoseRows', 'dose_row_ids', None)
    elif 'Dose' in df.columns and df['Dose'].notna().any():
        fail('DoseRows', 'unrequested_dose_rows', None)
    # ---- provenance (ProbeMech only) -------------------------------------------------------------
    if not rec['regimen']:
        sims = [e for e in probes.log_of(tag) if e[0] == 'simulate']
        if kind == 'predictive':
            if len(sims) != 1 or not np.array_equal(sims[0][1], np.array(params[:nm])) or \
                    not np.array_equal(sims[0][2], np.sort(times)):
                fail('Provenance', 'given_vector', dict(n=len(sims)))
        elif kind in ('posterior', 'pam', 'posteriorpop'):
            # (over a population model every sample ID simulates n_samples individuals and keeps the first)
            if len(sims) != (ns * ns if kind == 'posteriorpop' else ns):
                fail('JointRow', 'n_simulations', dict(got=len(sims), expected=ns))
            for ev in sims:
                codes = [int(round(v)) for v in ev[1]]
                cds = {((c // 100) % 10, (c // 10) % 10) for c in codes}
                inds = {c % 10 for c in codes}
                ks = [c // 1000 for c in codes]
                if len(cds) != 1:
                    fail('JointRow', 'mixed_draws', dict(codes=codes))
                    break
                if inds != {['a', 'b', 'c'].index(who) + 1}:
                    fail('JointRow', 'wrong_individual', dict(codes=codes, individual=who))
                    break
                if ks != list(range(1, nm + 1)):
                    fail('JointRow', 'wrong_parameter_columns', dict(codes=codes))
                    break
        elif kind == 'prior' and len(sims) != ns:
            fail('Provenance', 'n_simulations', dict(got=len(sims), expected=ns))
        elif kind == 'population' and len(sims) != ns:
            fail('Provenance', 'n_simulations', dict(got=len(sims), expected=ns))
    return fails, cnt


# ---------------------------------------------------------------------------------------------
def population_stage_records(seed):
    """stage 1 of the population predictive model: the individual parameters that reach the mechanistic
    model, identified under scripted generators (integer population parameters), for TLC (SampleAlgebra)."""
    from .replay_samplealgebra import identify, to_record
    out = []
    rng = np.random.default_rng(seed)
    for ns, nids in ((2, 2), (3, 2), (1, 3)):
        for ncov in (0, 1):
            tag = 'prs%d%d%d' % (ns, nids, ncov)
            pm = chi.PredictiveModel(probes.ProbeMech(2, 1, tag=tag), chi.GaussianErrorModel())
            first = chi.LogNormalModel() if not ncov else chi.CovariatePopulationModel(
                chi.LogNormalModel(), chi.LinearCovariateModel(n_cov=1))
            pop = chi.ComposedPopulationModel([first, chi.PooledModel(), chi.GaussianModel(centered=False)])
            pop.set_n_ids(nids)
            ppm = chi.PopulationPredictiveModel(pm, pop)
            names = ppm.get_parameter_names()
            vals = {'Log mean': 1, 'Log std.': 2, 'Pooled': 3, 'Mean': 5, 'Std.': 2}
            pv = [1 if 'Cov.' in n_ else vals[n_.split(' Dim')[0]] for n_ in names]
            covs = np.array([[float(i + 1)] for i in range(ns)]) if ncov else None

            def fn():
                probes.clear(tag)
                ppm.sample(pv, [1.0], n_samples=ns, seed=3, return_df=False, covariates=covs)
                sims = [e for e in probes.log_of(tag) if e[0] == 'simulate']
                arr = np.full((ns, 3), np.nan)
                for i, ev in enumerate(sims[:ns]):
                    arr[i, :2] = ev[1]
                return arr[:, :2]
            try:
                atoms, cells, shape = identify(fn, rng)
            except Exception as e:
                out.append(dict(error=repr(e), name='PopulationPredictiveModel n_samples=%d n_ids=%d cov=%d' % (ns, nids, ncov)))
                continue
            claims, groups = [], []
            for i in range(ns):
                x = (i + 1.0) if ncov else 0.0
                claims.append(('lognormal', 1 + x, 2 + x, 0))
                claims.append(('point', 3, 0, 0))
                groups += ['i%d_d0' % i, 'i%d_d1' % i]
            out.append(to_record('PopulationPredictiveModel n_samples=%d n_ids=%d cov=%d' % (ns, nids, ncov),
                                 atoms, cells, claims, groups))
    return out


def measurement_stage_checks(seed):
    """stage 2: measurements as a function of the error-stage atoms, numerically (mechanistic output is real valued); once with
    the model's own outputs and once with the optional outputs= argument listing the SAME outputs in the other order (error
    model i belongs to outputs[i])"""
    from .replay_samplealgebra import identify
    fails = []
    rng = np.random.default_rng(seed)
    tms = [1.5, 0.5]
    st = np.sort(tms)
    for variant in ('own_outputs', 'outputs_argument_reordered'):
        tag = 'prm' + variant[:3]
        if variant == 'own_outputs':
            layout = [(0, 'G', 0.3), (1, 'L', 0.4)]
            pm = chi.PredictiveModel(probes.ProbeMech(2, 2, tag=tag), [chi.GaussianErrorModel(), chi.LogNormalErrorModel()])
        else:
            layout = [(1, 'L', 0.4), (0, 'G', 0.3)]
            pm = chi.PredictiveModel(probes.ProbeMech(2, 2, tag=tag), [chi.LogNormalErrorModel(), chi.GaussianErrorModel()],
                                     outputs=['Y2', 'Y1'])
            if list(pm.get_output_names()) != ['Y2', 'Y1']:
                fails.append(('LabelsOK', 'outputs_argument_order', dict(got=list(pm.get_output_names()), expected=['Y2', 'Y1'])))
                continue
        params = [1.2, 0.9] + [sg for _, _, sg in layout]

        def fn():
            return pm.sample(params, tms, n_samples=2, seed=1, return_df=False)
        atoms, cells, shape = identify(fn, rng)
        k = 0
        supports = []
        for o, (po, law, sg) in enumerate(layout):
            pred = probes.probe_output(po, st, np.array(params[:2]))
            for t in range(2):
                for s in range(2):
                    c = cells[k]
                    k += 1
                    supports.append(tuple(j for j, _ in c['coef']))
                    if law == 'G':
                        ok = c['form'] == 'affine' and abs(c['c0'] - pred[t]) < 1e-12 and len(c['coef']) == 1 and abs(c['coef'][0][1] - sg) < 1e-12
                    else:
                        ok = c['form'] == 'logaffine' and abs(c['c0'] - (np.log(pred[t]) - sg ** 2 / 2)) < 1e-12 and len(c['coef']) == 1 \
                            and abs(c['coef'][0][1] - sg) < 1e-12
                    if not ok:
                        fails.append(('CellLaw', 'measurement_stage', dict(variant=variant, output=o + 1, time=float(st[t]), sample=s + 1, cell=c)))
        if len(set(supports)) != len(supports):
            fails.append(('Independent', 'measurement_stage', dict(variant=variant, supports=supports)))
    return fails


def posterior_law_checks(seed, n=1200):
    """stage 3 (spec: Predictive!PosteriorLaw, AveragedLaw): which posterior rows are drawn, and how often.
    A coded posterior with 3 chains x 4 draws x 3 individuals (every row distinguishable) is sampled n times;
    every (chain, draw) row of the selected individual must be reachable and the counts must be compatible with
    the uniform law over all chains * draws rows; for the averaged model the member models must be chosen with
    the stated weights (2 : 1) and rows uniformly within each.  Tests are two-sided at level 1e-9 (seeded, so
    deterministic for a given --seed): they reject structural errors (a chain never drawn, weights ignored),
    not sampling noise."""
    from scipy import stats
    fails = []
    rng = np.random.default_rng([seed, 77])
    nch, ndr = 3, 4
    ids = ['a', 'b', 'c']
    tag = 'prlaw'
    pm = chi.PredictiveModel(probes.ProbeMech(2, 1, tag=tag), [chi.GaussianErrorModel()])
    names = pm.get_parameter_names()
    post = coded_posterior(names, ids, nch=nch, ndr=ndr)
    post2 = post.copy(deep=True)
    for nme in names:
        post2[nme] = post2[nme] + 50000          # rows of the second member model are recognisable
    crit = stats.chi2.isf(1e-9, nch * ndr - 1)

    def rows_of(sims, who):
        out = []
        for ev in sims:
            codes = [int(round(v)) for v in ev[1]]
            c0 = codes[0]
            model = 2 if c0 >= 50000 else 1
            c0 -= 50000 * (model - 1)
            if c0 % 10 != ids.index(who) + 1:
                fails.append(('JointRow', 'wrong_individual', dict(codes=codes, individual=who)))
                return None
            out.append((model, (c0 // 100) % 10, (c0 // 10) % 10))
        return out

    def uniform(rows, what):
        cnts = np.array([[sum(1 for r in rows if r[1:] == (c + 1, d + 1)) for d in range(ndr)] for c in range(nch)])
        if np.any(cnts == 0):
            fails.append(('PosteriorLaw', 'row_never_drawn', dict(model=what, counts=cnts.tolist(), n=len(rows))))
            return
        e = len(rows) / float(nch * ndr)
        stat = float(np.sum((cnts - e) ** 2 / e))
        if stat > crit:
            fails.append(('PosteriorLaw', 'rows_not_uniform', dict(model=what, counts=cnts.tolist(), chi2=stat, critical=crit)))
    try:
        with warnings.catch_warnings():
            warnings.simplefilter('ignore')
            who = ids[int(rng.integers(3))]
            ppm = chi.PosteriorPredictiveModel(pm, post)
            probes.clear(tag)
            ppm.sample([1.0, 0.5], n_samples=n, individual=who, seed=int(rng.integers(1000)))
            rows = rows_of([e for e in probes.log_of(tag) if e[0] == 'simulate'], who)
            if rows is not None:
                if len(rows) != n:
                    fails.append(('JointRow', 'n_simulations', dict(got=len(rows), expected=n)))
                uniform(rows, 'posterior')
            # (the weights are handed over in a float array that the caller overwrites afterwards: the model keeps 2 : 1)
            w_law = np.array([2.0, 1.0])
            pam = chi.PAMPredictiveModel([ppm, chi.PosteriorPredictiveModel(pm, post2)], weights=w_law)
            w_law[...] = [1.0, 50.0]
            probes.clear(tag)
            pam.sample([1.0, 0.5], n_samples=n, individual=who, seed=int(rng.integers(1000)))
            rows = rows_of([e for e in probes.log_of(tag) if e[0] == 'simulate'], who)
            if rows is not None:
                n1 = sum(1 for r in rows if r[0] == 1)
                lo, hi = stats.binom.ppf([5e-10, 1 - 5e-10], len(rows), 2.0 / 3.0)
                if len(rows) != n or not (lo <= n1 <= hi):
                    fails.append(('AveragedLaw', 'weights', dict(n=len(rows), from_first_model=n1, accepted=[float(lo), float(hi)])))
                for m in (1, 2):
                    sub = [r for r in rows if r[0] == m]
                    if len(sub) >= 300:        # (11/12)^300 < 1e-11: a row left out by chance is not a concern
                        uniform(sub, 'averaged member %d' % m)
    except Exception as e:
        fails.append(('Evaluable', type(e).__name__, repr(e)))
    return fails
