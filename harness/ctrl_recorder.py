"""Method recorder for chi.ProblemModellingController (code -> spec, module Trace_CtrlLife): the public
configuration calls are wrapped at class level from outside chi; one event per TOP-LEVEL call, logged
after it returned or raised, carrying the projection the life-cycle rules speak about."""
import functools

EVENTS = []
RECORD = [True]
_depth = [0]
_installed = [False]
_cid = [0]

OPS = {'set_data': 'setdata', 'set_population_model': 'setpop', 'fix_parameters': 'fix', 'set_log_prior': 'setprior',
       'get_log_posterior': 'getpost', 'get_predictive_model': 'getpred'}


def _cid_of(obj):
    d = obj.__dict__
    if d.get('_verif_self') != id(obj):
        _cid[0] += 1
        d['_verif_cid'] = _cid[0]
        d['_verif_self'] = id(obj)
    return d['_verif_cid']


def _event(obj, e, err):
    try:
        names = [str(x) for x in obj.get_parameter_names()]
        n = int(obj.get_n_parameters())
    except Exception:
        names, n = [], -1
    EVENTS.append(dict(e=e, c=_cid_of(obj), err=bool(err), names=names, n=n,
                       prior=obj.__dict__.get('_log_prior') is not None, hasdata=obj.__dict__.get('_data') is not None))


def _wrap(cls, name, e):
    orig = cls.__dict__[name]

    @functools.wraps(orig)
    def wrapper(self, *args, **kwargs):
        if _depth[0] > 0 or not RECORD[0]:
            return orig(self, *args, **kwargs)
        _depth[0] += 1
        err = False
        try:
            return orig(self, *args, **kwargs)
        except Exception:
            err = True
            raise
        finally:
            _depth[0] -= 1
            if '_mechanistic_model' in self.__dict__:        # (a constructor that raised early leaves nothing to report)
                _event(self, e, err)
    wrapper._verif_orig = orig
    return wrapper


def install(chi):
    if _installed[0]:
        return
    _installed[0] = True
    cls = chi.ProblemModellingController
    for name, e in list(OPS.items()) + [('__init__', 'init')]:
        setattr(cls, name, _wrap(cls, name, e))


def take():
    """returns the events recorded so far and clears the list"""
    out = list(EVENTS)
    del EVENTS[:]
    return out
