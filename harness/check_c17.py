"""C17 via module PopLayout (see harness/poplayout_check.py, harness/replay_poplayout.py)."""
import json

from . import poplayout_check
from .common import MachineryError

PROP = 'C17'
RULES = {
    'C02': ('TLC enumerates every sequence of sub-model descriptors (kind x dims x centred x covariates) x nIds x fixed '
            'subsets within the constants and checks position<->slot bijection, counts, names/IDs and the transcribed '
            'index arithmetic; each composition is built in chi and its hierarchical score compared with the documented '
            'sum read through the Layout. Non-trivial = >=2 sub-models or a pooled/heterogeneous/covariate/non-centred/'
            'fixed dimension'),
    'C03': ('same enumeration; evaluateS1 score and gradient of every composition compared with the exact derivative of '
            'the documented log-likelihood, position by position in the published order; value re-evaluated after S1. '
            'Non-trivial as for C02'),
    'C17': ('same enumeration; n_parameters (both flavours), names (all flag combinations), IDs, n_hierarchical_parameters, '
            'special-dimension table and gradient length compared with each other and with the specification. '
            'Non-trivial as for C02'),
}


RC_CLAUSES = {'Agree', 'UniqueDefault', 'NamesIds', 'PL_Counts', 'Evaluable', 'Denotation'}


def _summ(r):
    if not r.ok():
        raise MachineryError('TLC did not finish cleanly: %s %s' % (r.violated, r.errors[:1]))
    return dict(states=r.distinct, transitions=r.generated, wall_s=round(r.wall, 2))


def reconfig(tier, seed):
    """module PopReconfig: TLC checks every invariant of PopLayout after every history of at most MaxOps public
    reconfiguration calls (set_n_ids / fix / release / set_dim_names / set_parameter_names) on six compositions, exports
    every history of exactly MaxOps calls, and (thorough) random longer walks; each is applied to the real objects."""
    from . import tlc, replay_popreconfig
    from .verdict import pmap
    runs = []
    r = tlc.run('MC_PopReconfig', 'PopReconfig_quick.cfg', want_records=False)
    runs.append(dict(cfg='PopReconfig_quick.cfg', mode='exhaustive (VIEW hides the history)', **_summ(r)))
    r = tlc.run('MC_PopReconfig', 'PopReconfig_walks.cfg')
    runs.append(dict(cfg='PopReconfig_walks.cfg', mode='exhaustive, every history of MaxOps=4 calls exported',
                     histories=len(r.records), **_summ(r)))
    recs = list(r.records)
    if tier == 'quick':
        # a third of the histories, chosen by content and rotating with the seed (the thorough tier replays all of them)
        from .common import digest
        recs = [x for x in recs if int(digest(x), 16) % 3 == seed % 3]
    # histories of 3 calls with ONE rejected call among them (PopReconfig!RC_Bad): a rejected call has no effect
    rb = tlc.run('MC_PopReconfig', 'PopReconfig_bad.cfg')
    bad = [x for x in rb.records if any(h[0] == 'bad' for h in x['hist'])]
    runs.append(dict(cfg='PopReconfig_bad.cfg', mode='exhaustive, histories of 3 calls with one rejected call', histories=len(bad),
                     **_summ(rb)))
    if tier == 'quick':
        from .common import digest
        bad = [x for x in bad if int(digest(x), 16) % 3 == seed % 3]
    recs += bad
    if tier == 'thorough':
        for k in range(4):
            w = tlc.simulate('MC_PopReconfig', 'PopReconfig_long.cfg', 400, 60, seed=seed * 10 + k)
            runs.append(dict(cfg='PopReconfig_long.cfg', mode='simulate num=400 depth=60 (MaxOps=8)', histories=len(w.records),
                             **_summ(w)))
            recs += w.records
    seen, uniq = set(), []
    for x in recs:
        k = json.dumps(x, sort_keys=True)
        if k not in seen:
            seen.add(k)
            uniq.append(x)
    return runs, uniq, pmap(replay_popreconfig.replay_case, [(x, seed) for x in uniq])


CL_CLAUSES = {'Agree', 'PriorAgrees', 'Available', 'Evaluable', 'Trace:Agree', 'Trace:FailedCallNoEffect', 'Trace:PriorReset',
              'Trace:PriorFollowsData', 'Trace:PriorSet', 'Trace:PosteriorNeeds', 'Trace:Stutter', 'Trace:PriorAgrees'}


def ctrl_life(tier, seed):
    """module CtrlLife: the life cycle of the problem controller (set_population_model / set_data / fix / release /
    set_log_prior in any order).  TLC checks PriorAgrees etc. over all histories of <= 6 calls with every population model
    of <= 3 dimensions; the as-found rule (set_data keeps the prior) must be refuted; every history of 4 calls over eight
    population models (thorough: random walks of 8 calls over all of them) is applied to a real controller."""
    from . import tlc, replay_ctrllife
    from .verdict import pmap
    runs = []
    r = tlc.run('MC_CtrlLife', 'CtrlLife_quick.cfg', want_records=False)
    runs.append(dict(cfg='CtrlLife_quick.cfg', mode='exhaustive (VIEW hides the history)', **_summ(r)))
    try:
        tlc.run('MC_CtrlLife', 'CtrlLife_asfound.cfg', want_records=False)
        raise MachineryError('negative control failed: the as-found prior rule was not refuted')
    except tlc.SpecViolation as e:
        if e.res.violated != 'PriorAgrees':
            raise MachineryError('as-found prior rule refuted on %s' % e.res.violated)
    r = tlc.run('MC_CtrlLife', 'CtrlLife_walks.cfg')
    runs.append(dict(cfg='CtrlLife_walks.cfg', mode='exhaustive, every history of MaxOps=4 calls exported', histories=len(r.records),
                     **_summ(r)))
    recs = list(r.records)
    if tier == 'quick':
        # a third of the histories, chosen by content and rotating with the seed; every history in which data is set after a
        # prior (the stratum of F29) is always replayed
        from .common import digest

        def keep(x):
            ops = [h['op'] for h in x['hist']]
            late_data = 'setprior' in ops and 'setdata' in ops[ops.index('setprior'):]
            return late_data or int(digest(x), 16) % 3 == seed % 3
        recs = [x for x in recs if keep(x)]
    if tier == 'thorough':
        for k in range(4):
            w = tlc.simulate('MC_CtrlLife', 'CtrlLife_long.cfg', 500, 40, seed=seed * 10 + k)
            runs.append(dict(cfg='CtrlLife_long.cfg', mode='simulate num=500 (MaxOps=8, all population models)',
                             histories=len(w.records), **_summ(w)))
            recs += w.records
    seen, uniq = set(), []
    for x in recs:
        k = json.dumps(x, sort_keys=True)
        if k not in seen:
            seen.add(k)
            uniq.append(x)
    res = pmap(replay_ctrllife.replay_case, [(x, seed) for x in uniq])
    # ---- code -> spec: recorded controller events validated by TLC against Trace_CtrlLife ------------------------
    from . import validate_traces
    traces = [dict(name='history-%d' % k, trace=t) for k, (_, _, t) in enumerate(res) if t]
    traces += repo_ctrl_traces(tier)
    vres, verdicts = validate_traces.validate_ctrl([t['trace'] for t in traces], tag='c17')
    runs.append(dict(cfg='Trace_CtrlLife', mode='trace validation: %d recorded traces, %d events' % (
        len(traces), sum(len(t['trace']) for t in traces)), **_summ(vres)))
    # binding control: a recorded prior that survives fix_parameters must be rejected
    bad = None
    for t in traces:
        for k, e in enumerate(t['trace']):
            if e['e'] == 'fix' and not e['err']:
                bad = [dict(x) for x in t['trace']]
                bad[k]['prior'] = True
                break
        if bad:
            break
    if bad is None:
        raise MachineryError('no fix event recorded: binding control impossible')
    _, cv = validate_traces.validate_ctrl([bad], tag='c17ctrl')
    if cv[0]['clause'] not in ('PriorReset', 'PriorAgrees'):
        raise MachineryError('binding control failed: corrupted trace accepted (%r)' % (cv[0],))
    tfails = [dict(case=dict(trace=t['name'], events=t['trace'][max(0, v['line'] - 3):v['line']]), clause='Trace:' + v['clause'],
                   manifestation='rejected', detail=v, features=['trace', 'repo_test' if '::' in t['name'] else 'history'])
              for t, v in zip(traces, verdicts) if v['clause']]
    return runs, uniq, [(f, c) for f, c, _ in res] + [(tfails, {'ctrl_traces': len(traces)})]


def repo_count_traces(tier):
    """the repository's own tests run on RefSim with harness/counts_plugin.py: every top-level public call on every chi
    object that reports parameter names is followed by an observation of its counts (Trace_Counts)"""
    import os
    import subprocess
    import sys
    from . import validate_traces
    from .common import WORK, VERIF, CHI_SRC
    out = os.path.join(WORK, 'count-traces-%d.json' % os.getpid())
    env = dict(os.environ, VERIF_TRACE_OUT=out, PYTHONPATH=VERIF + os.pathsep + CHI_SRC)
    files = ['chi/tests'] if tier == 'thorough' else ['chi/tests/test_population_models.py', 'chi/tests/test_log_pdfs.py',
                                                       'chi/tests/test_problems.py', 'chi/tests/test_error_models.py']
    cmd = [sys.executable, '-m', 'pytest', '-q', '-p', 'no:cacheprovider', '-p', 'harness.counts_plugin'] + files
    p = subprocess.run(cmd, cwd=CHI_SRC, env=env, stdout=subprocess.PIPE, stderr=subprocess.STDOUT, text=True, timeout=3600)
    if not os.path.exists(out):
        raise MachineryError('repository tests produced no count traces:\n' + p.stdout[-2000:])
    with open(out) as f:
        traces = json.load(f)
    os.remove(out)
    if len(traces) < 5:
        raise MachineryError('repository tests produced only %d count traces' % len(traces))
    vres, verdicts = validate_traces.validate_counts([t['trace'] for t in traces], tag='c17n')
    # binding control: one count off by one must be rejected
    bad = [dict(e) for e in traces[0]['trace']]
    bad[len(bad) // 2]['n'] += 1
    _, cv = validate_traces.validate_counts([bad], tag='c17nc')
    if cv[0]['clause'] not in ('Agree', 'FailedCallNoEffect'):
        raise MachineryError('binding control failed: corrupted count trace accepted (%r)' % (cv[0],))
    run = dict(cfg='Trace_Counts', mode='trace validation: %d traces (one per test class of the repository), %d events' % (
        len(traces), sum(len(t['trace']) for t in traces)), **_summ(vres))
    fails = [dict(case=dict(trace=t['name'], events=t['trace'][max(0, v['line'] - 3):v['line']]), clause='Trace:' + v['clause'],
                  manifestation='rejected', detail=v, features=['trace', 'repo_test', 'counts'])
             for t, v in zip(traces, verdicts) if v['clause']]
    return run, fails, len(traces)


def repo_ctrl_traces(tier='thorough'):
    """the repository's own controller / inference / predictive tests, run on RefSim with the controller recorder on"""
    import os
    import subprocess
    import sys
    from .common import WORK, VERIF, CHI_SRC
    out = os.path.join(WORK, 'ctrl-traces-%d.json' % os.getpid())
    env = dict(os.environ, VERIF_TRACE_OUT=out, PYTHONPATH=VERIF + os.pathsep + CHI_SRC)
    cmd = [sys.executable, '-m', 'pytest', '-q', '-p', 'no:cacheprovider', '-p', 'harness.ctrl_trace_plugin',
           'chi/tests/test_problems.py'] + (['chi/tests/test_inference.py', 'chi/tests/test_predictive_models.py']
                                            if tier == 'thorough' else [])
    p = subprocess.run(cmd, cwd=CHI_SRC, env=env, stdout=subprocess.PIPE, stderr=subprocess.STDOUT, text=True, timeout=1800)
    if not os.path.exists(out):
        raise MachineryError('repository tests produced no controller traces:\n' + p.stdout[-2000:])
    with open(out) as f:
        traces = json.load(f)
    os.remove(out)
    if not traces:
        raise MachineryError('repository tests produced no controller traces')
    return traces


def run(tier, seed):
    def extra(v, cov):
        runs2, uniq2, res2 = ctrl_life(tier, seed)
        for fails, cnt in res2:
            v.failures([f for f in fails if f['clause'] in CL_CLAUSES])
            v.merge_counters({'ctrl_' + k: n for k, n in cnt.items()})
        if not uniq2 or not v.counters.get('ctrl_evaluations') or not v.counters.get('ctrl_feat_data_set_after_prior'):
            v.vacuous('vacuous controller life-cycle run')
        crun, cfails, ntr = repo_count_traces(tier)
        v.failures(cfails)
        cov['repository_test_classes_validated_against_Trace_Counts'] = ntr
        runs2 = runs2 + [crun]
        cov['controller_histories_replayed'] = len(uniq2)
        cov['spec_negative_control'] += '; CtrlLife_asfound.cfg (set_data keeps the prior) refuted by TLC on PriorAgrees'
        # counts and names of all fourteen reducible object classes after every fix / re-fix / release transition: the
        # shared run of module FixParams (see C08), judged on its counts clause
        from . import check_c08
        from .cache import cached
        fx = cached('fixparams', tier, seed, lambda: check_c08._compute(tier, seed))
        for fails, cnt in fx['results']:
            v.failures([f for f in fails if f['clause'] == 'CountsOK'])
            v.count('fixparams_cases', cnt.get('cases', 0))
        cov['fixparams_transitions_replayed'] = v.counters.get('fixparams_cases', 0)
        # names, IDs and counts of the filter posterior (block layout [population | sigma | eta | epsilon], one or two
        # observables): the shared run of module FilterPosterior (see C13), judged on its names / counts clauses
        from . import check_c13
        fp = cached('filterposterior', tier, seed, lambda: check_c13._compute(tier, seed))
        for fails, cnt in fp['results']:
            v.failures([f for f in fails if f['clause'] in ('NamesIds', 'FP_Counts')])
            v.count('filterposterior_cases', cnt.get('cases', 0))
        # gradient lengths of the four error models, also at points outside the support: the shared run of module ErrorModel
        # (see C04), judged on its length clause
        from . import check_c04
        emr = cached('errormodel', tier, seed, lambda: check_c04._compute(tier, seed))
        for fails, cnt in emr['results']:
            v.failures([f for f in fails if f['clause'] == 'GradLength'])
            v.count('errormodel_cases', cnt.get('cases', 0))
        # names of the covariate parameters after set_population_parameters (any selection, 1-2 covariates): the shared run
        # of module CovSel (see C07), judged on its names clause
        from . import check_c07
        cs = cached('covsel', tier, seed, lambda: check_c07._compute(tier, seed))
        for fails, cnt in cs['results']:
            v.failures([f for f in fails if f['clause'] in ('Names', 'NamesBijective')])
            v.count('covsel_cases', cnt.get('cases', 0))
        runs, uniq, res = reconfig(tier, seed)
        runs, uniq = runs + runs2 + fx['runs'], uniq + uniq2
        for fails, cnt in res:
            v.failures([f for f in fails if f['clause'] in RC_CLAUSES])
            v.merge_counters({'reconfig_' + k: n for k, n in cnt.items()})
        if not uniq or not v.counters.get('reconfig_evaluations'):
            v.vacuous('vacuous reconfiguration run')
        cov['tlc_runs'] = cov['tlc_runs'] + runs
        cov['states'] += sum(r['states'] for r in runs)
        cov['transitions'] += sum(r['transitions'] for r in runs)
        cov['traces_validated_against_impl'] += len(uniq)
        cov['reconfiguration_histories_replayed'] = len(uniq)
        cov['rule'] += ('; plus module PopReconfig: every history of 4 reconfiguration calls (quick: a content-chosen third; thorough: all, and random walks '
                        'of up to 8) on six compositions, replayed on the real objects, counts/names/IDs/vector and '
                        'gradient lengths compared after every call and at the end; plus module CtrlLife: every history of 4 '
                        'configuration calls of the problem controller (thorough: walks of 8), names / counts / prior held after '
                        'every call, posterior available iff specified, prior paired with the parameters it was set for')
    return poplayout_check.run(PROP, tier, seed, [], RULES[PROP], extra=extra)


def replay(path):
    rep = json.load(open(path))
    if 'hist' in rep['case']['config']:
        from . import replay_popreconfig
        fails, _ = replay_popreconfig.replay_case((rep['case']['config'], rep['seed']))
        for f in fails:
            if f['clause'] in RC_CLAUSES:
                print('VIOLATION property=%s replay=%s' % (PROP, path))
                print('  clause=%s manifestation=%s detail=%s' % (f['clause'], f['manifestation'], str(f['detail'])[:400]))
                return 1
        print('replay passes')
        return 0
    return poplayout_check.replay(PROP, path)
