"""C03 via module PopLayout (see harness/poplayout_check.py, harness/replay_poplayout.py)."""
from . import poplayout_check

PROP = 'C03'
RULES = {
    'C02': ('TLC enumerates every sequence of sub-model descriptors (kind x dims x centred x covariates) x nIds x fixed '
            'subsets within the constants and checks position<->slot bijection, counts, names/IDs and the transcribed '
            'index arithmetic; each composition is built in chi and its hierarchical score compared with the documented '
            'sum read through the Layout. Non-trivial = >=2 sub-models or a pooled/heterogeneous/covariate/non-centred/'
            'fixed dimension'),
    'C03': ('same enumeration; evaluateS1 score and gradient of every composition compared with the exact derivative of '
            'the documented log-likelihood, position by position in the published order; value re-evaluated after S1. '
            'Non-trivial as for C02'),
    'C17': ('same enumeration; n_parameters (both flavours), names (all flag combinations), IDs, n_hierarchical_parameters, '
            'special-dimension table and gradient length compared with each other and with the specification. '
            'Non-trivial as for C02'),
}


def run(tier, seed):
    def extra(v, cov):
        """individual level: the shared LogLik run (see check_c01) judged on the gradient clauses"""
        from . import loglik_run
        out = loglik_run.run(tier, seed)
        for fails, cnt in out['results']:
            v.failures([f for f in fails if f['clause'] in loglik_run.C03_CLAUSES])
            v.merge_counters({'loglik_' + k: n for k, n in cnt.items()})
        cov['tlc_runs'] = cov['tlc_runs'] + out['runs']
        cov['states'] += sum(r['states'] for r in out['runs'])
        cov['transitions'] += sum(r['transitions'] for r in out['runs'])
        cov['traces_validated_against_impl'] += out['n']
        # gradients of likelihoods with fixed parameters after fix / re-fix / release histories: the shared FixParams run
        # (see C08), judged on the gradient entries of the likelihood-level and controller-level adapters
        from . import check_c08
        from .cache import cached
        fx = cached('fixparams', tier, seed, lambda: check_c08._compute(tier, seed))
        for fails, cnt in fx['results']:
            v.failures([f for f in fails if f['clause'] in ('SubstitutionOK', 'Evaluable') and
                        any(c in str(f['features']) for c in ('class_LogLikelihood', 'class_ProblemModellingController'))
                        and ('s1' in f['manifestation'] or f['clause'] == 'Evaluable')])
        cov['tlc_runs'] = cov['tlc_runs'] + fx['runs']
        # the gradient of the filter posterior (population, free noise scales on either error scale, simulated individuals,
        # noise realisations; one or two observables): the shared FilterPosterior run (see C13), judged on its gradient clause
        from . import check_c13
        fp = cached('filterposterior', tier, seed, lambda: check_c13._compute(tier, seed))
        for fails, cnt in fp['results']:
            v.failures([f for f in fails if f['clause'] == 'GradSlotOK'])
            v.count('filterposterior_gradients', cnt.get('evaluations', 0) and 1)
        cov['rule'] += ('; plus every configuration of module LogLik (individual likelihoods, all error kinds) judged on '
                        'GradIsDecl / SensSwitch / FiniteAgree; FiniteAgree = at points with one parameter set to 0 or a '
                        'negative number evaluateS1 reports a finite score iff plain evaluation does, and the same one')
    return poplayout_check.run(PROP, tier, seed, [], RULES[PROP], extra=extra)


def replay(path):
    import json
    rep = json.load(open(path))
    if 'grid' in rep['case']['config']:
        from . import replay_loglik, loglik_run
        fails, _ = replay_loglik.replay_case((rep['case']['config'], rep['seed']))
        for f in fails:
            if f['clause'] in loglik_run.C03_CLAUSES:
                print('VIOLATION property=%s replay=%s' % (PROP, path))
                print('  clause=%s manifestation=%s detail=%s' % (f['clause'], f['manifestation'], str(f['detail'])[:400]))
                return 1
        print('replay passes')
        return 0
    if 'nsamples' in rep['case']['config']:          # a configuration of module FilterPosterior (shared run)
        from . import replay_filterposterior
        fails, _ = replay_filterposterior.replay_case((rep['case']['config'], rep['seed']))
        for f in fails:
            if f['clause'] == 'GradSlotOK':
                print('VIOLATION property=%s replay=%s' % (PROP, path))
                print('  clause=%s manifestation=%s detail=%s' % (f['clause'], f['manifestation'], str(f['detail'])[:400]))
                return 1
        print('replay passes')
        return 0
    return poplayout_check.replay(PROP, path)
