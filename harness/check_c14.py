"""C14 -- the problem controller builds exactly the posterior the dataset describes (module Controller)."""
import json

from . import tlc
from .cache import cached
from .common import MachineryError, digest
from .verdict import Verdict, pmap

PROP = 'C14'
ASSUME = [
    'mechanistic model: library one-compartment PK model with direct administration and two outputs, on RefSim; error models '
    'Gaussian and constant-and-multiplicative Gaussian; population models: composed (log-normal, pooled, non-centred '
    'Gaussian) and a covariate / heterogeneous composition',
    'oracle: the posterior assembled by hand with the plain constructors from the routing record the specification derives '
    'from the dataset (correctness of those constructors: C01-C03, C09-C11); values 1e-7, gradients 1e-5 (RefSim sensitivities)',
    'preconditions of the underlying classes: per individual and output measurement times non-decreasing in row order, dose '
    'events of one individual at distinct times, every mapped observable occurs in the data, one covariate value per individual',
]
MODES = ('indiv', 'pop', 'popcov')


def _compute(tier, seed):
    runs, recs = [], []
    # (Controller_unbalanced.cfg: one individual has no base measurement of the first output)
    for cfg in ('Controller_single.cfg', 'Controller_%s.cfg' % tier, 'Controller_unbalanced.cfg'):
        r = tlc.run('Controller', cfg)
        runs.append(r.summary())
        recs += r.records
    if tier == 'quick':
        recs = [x for x in recs if len(x['posterior']['ids']) == 1 or int(digest(x), 16) % 4 == seed % 4]
    # (Controller_unmeasured.cfg: three individuals, one of them without any usable measurement -- all of its datasets)
    ru = tlc.run('Controller', 'Controller_unmeasured.cfg')
    runs.append(ru.summary())
    unmeasured = list(ru.records)
    if tier == 'quick':
        # three individuals (one extra row): positions in the parameter vector and per-individual regimens beyond two
        r3 = tlc.run('Controller', 'Controller_three.cfg')
        runs.append(r3.summary())
        recs += [x for x in r3.records if len(x['posterior']['ids']) == 3 and int(digest(x), 16) % 3 == seed % 3]
    else:
        recs = [x for x in recs if len(x['data']) < 8 or int(digest(x), 16) % 40 == seed % 40]
    recs += unmeasured
    from . import replay_controller
    results = pmap(replay_controller.replay_case, [(rec, MODES[(i + seed) % 3] if len(rec['posterior']['ids']) > 1 else m, seed)
                                                   for i, rec in enumerate(recs)
                                                   for m in ((None,) if len(rec['posterior']['ids']) > 1 else MODES)])
    return dict(runs=runs, n=len(recs), results=results, samples=[recs[10], recs[-1]])


def run(tier, seed):
    v = Verdict(PROP, tier, seed)
    out = cached('controller', tier, seed, lambda: _compute(tier, seed))
    for fails, cnt in out['results']:
        v.failures(fails)
        v.merge_counters(cnt)
    for s in out['samples']:
        v.sample(s)
    nt = v.counters.get('feat_has_irrelevant_rows', 0)
    if nt == 0 or v.counters.get('feat_has_dose_rows', 0) == 0 or v.counters.get('feat_ids_not_sorted', 0) == 0:
        v.vacuous('vacuous run')
    cov = dict(states=sum(r['states'] for r in out['runs']), transitions=sum(r['transitions'] for r in out['runs']),
               traces_validated_against_impl=v.counters.get('cases', 0) - v.counters.get('outside_preconditions', 0),
               evaluations=v.counters.get('evaluations', 0), distinct_nontrivial=nt, exhaustive=False,
               rule='TLC enumerates every dataset of up to 2 (3) extra rows (7 row kinds x individuals x times x values) in '
                    'front of the base rows, for one and for two individuals; a seeded quarter (quick) of the two-individual '
                    'datasets is replayed in one of the modes individual / population / population+covariates, all '
                    'single-individual datasets in all modes; ids as ints or strings; non-trivial = the dataset contains rows '
                    'that must not matter (unmapped observable, missing value or time)',
               tlc_runs=out['runs'])
    return v.finish('model_checking', cov, ASSUME)


def replay(path):
    from . import replay_controller
    rep = json.load(open(path))
    fails, _ = replay_controller.replay_case((rep['case']['config'], rep['case']['mode'], rep['seed']))
    for f in fails:
        print('VIOLATION property=%s replay=%s' % (PROP, path))
        print('  clause=%s manifestation=%s detail=%s' % (f['clause'], f['manifestation'], str(f['detail'])[:400]))
        return 1
    print('replay passes')
    return 0
