"""spec -> code for module Filters (C12): every history of sort_times calls TLC enumerates is
applied to a plain filter and to a composed filter of every kind; values and sensitivities are
compared with the documented estimator / density (harness/interp-style reference, exact derivatives
by complex step) and with each other; padding with missing values and permuting individuals are
metamorphic relations generated alongside."""
import warnings

import numpy as np

from . import interp, probes
from .common import digest

chi = probes.chi

KINDS = ['GaussianFilter', 'LogNormalFilter', 'GaussianKDEFilter', 'LogNormalKDEFilter', 'GaussianMixtureFilter']


def make(kind, data):
    cls = getattr(chi, kind)
    return cls(data, n_kernels=2) if kind == 'GaussianMixtureFilter' else cls(data)


def lse(x):
    """log-sum-exp of a (possibly complex) vector, stabilised by the largest real part"""
    x = np.asarray(x)
    m = np.max(np.real(x))
    return m + np.log(np.sum(np.exp(x - m)))


def reference(kinds, data):
    """documented log-likelihood of the simulated measurements (function of sim, complex capable)"""
    n_ids, n_obs, n_t = data.shape

    def f(sim):
        ns = sim.shape[0]
        tot = 0.0
        for r in range(n_obs):
            for j in range(n_t):
                col = sim[:, r, j]
                ys = data[:, r, j]
                ys = ys[~np.isnan(ys)]
                kind = kinds if isinstance(kinds, str) else kinds[j]        # (one kind per time point: composed filters)
                if kind == 'GaussianFilter':
                    mu = np.sum(col) / ns
                    var = np.sum((col - mu) ** 2) / (ns - 1)
                    for y in ys:
                        tot = tot + interp.gauss(y, mu, np.sqrt(var))
                elif kind == 'LogNormalFilter':
                    lc = np.log(col)
                    mu = np.sum(lc) / ns
                    var = np.sum((lc - mu) ** 2) / (ns - 1)
                    for y in ys:
                        tot = tot + interp.pop_lognormal(y, mu, np.sqrt(var))
                elif kind == 'GaussianKDEFilter':
                    mu = np.sum(col) / ns
                    bw2 = (4.0 / 3.0 / ns) ** 0.4 * np.sum((col - mu) ** 2) / (ns - 1)
                    for y in ys:
                        tot = tot + lse(interp.gauss(y, col, np.sqrt(bw2))) - np.log(ns)
                elif kind == 'LogNormalKDEFilter':
                    lc = np.log(col)
                    mu = np.sum(lc) / ns
                    bw2 = (4.0 / 3.0 / ns) ** 0.4 * np.sum((lc - mu) ** 2) / (ns - 1)
                    for y in ys:
                        tot = tot + lse(interp.pop_lognormal(y, lc, np.sqrt(bw2))) - np.log(ns)
                else:
                    M = 2
                    per = ns // M
                    comp = []
                    for m in range(M):
                        blk = col[m * per:(m + 1) * per]
                        mu = np.sum(blk) / per
                        var = np.sum((blk - mu) ** 2) / (per - 1)
                        comp.append((mu, np.sqrt(var)))
                    for y in ys:
                        tot = tot + lse(np.array([interp.gauss(y, mu, sd) for mu, sd in comp])) - np.log(M)
        return tot
    return f


def grad_sim(f, sim):
    g = np.zeros(sim.shape)
    it = np.nditer(sim, flags=['multi_index'])
    for _ in it:
        z = sim.astype(complex)
        z[it.multi_index] += 1j * interp.H
        g[it.multi_index] = np.imag(f(z)) / interp.H
    return g


def replay_case(arg):
    rec, kind, seed = arg
    fails, cnt = [], {'cases': 1}
    key = digest([rec, kind])
    rng = np.random.default_rng([seed, int(key, 16) % (2 ** 31)])
    nt = rec['nt']
    hist = rec['hist']
    feats = ['kind_' + kind]
    if sum(1 for h in hist if h != list(range(1, nt + 1))) >= 2:
        feats.append('two_non_identity_sorts')
    if kind.startswith('LogNormal'):
        feats.append('lognormal_family')
    for f in feats:
        cnt['feat_' + f] = 1

    def fail(clause, manifestation, detail):
        fails.append(dict(case=dict(config=rec, kind=kind), clause=clause, manifestation=manifestation, detail=detail,
                          features=feats))
    n_ids, n_obs, n_sim = 3, int(rng.integers(1, 3)), 4
    data = np.round(rng.uniform(0.6, 2.5, size=(n_ids, n_obs, nt)), 3)
    for _ in range(int(rng.integers(0, 3))):
        i, r, j = int(rng.integers(n_ids)), int(rng.integers(n_obs)), int(rng.integers(nt))
        if np.sum(~np.isnan(data[:, r, j])) > 1:
            data[i, r, j] = np.nan
            cnt['with_missing'] = 1
    while True:       # well-conditioned simulated values: every estimator block has a variance well above zero
        sim = np.round(rng.uniform(0.6, 2.5, size=(n_sim, n_obs, nt)), 3)
        if min(np.var(sim[:2], axis=0).min(), np.var(sim[2:], axis=0).min(),
               np.var(np.log(sim[:2]), axis=0).min(), np.var(np.log(sim[2:]), axis=0).min()) > 1e-2:
            break
    ref = reference(kind, data)
    exp_v = interp.value(lambda z: ref(z), sim) if False else float(np.real(ref(sim.astype(complex))))
    exp_g = grad_sim(ref, sim)
    data_in = data.copy()
    try:
        with warnings.catch_warnings():
            warnings.simplefilter('ignore', RuntimeWarning)
            plain = make(kind, data_in)
            cut = int(rng.integers(1, nt))
            # split into two blocks of time points or -- every other case with three time points -- into one filter per time
            # point (three sub-filters: the offsets of the blocks accumulate)
            if nt >= 3 and int(key, 16) % 2 == 0:
                blocks = [data[..., j:j + 1] for j in range(nt)]
                cnt['composed_of_three_filters'] = 1
            else:
                blocks = [data[..., :cut], data[..., cut:]]
            composed = chi.ComposedPopulationFilter([make(kind, b.copy()) for b in blocks])
            # ---- documented estimator and density -------------------------------------------
            v = plain.compute_log_likelihood(sim.copy())
            s, g = plain.compute_sensitivities(sim.copy())
            cnt['evaluations'] = cnt.get('evaluations', 0) + 2
            if not interp.close(v, exp_v) or not interp.close(s, exp_v):
                fail('Estimator', 'value', dict(got=[float(v), float(s)], expected=exp_v, diff=float(v) - exp_v,
                                                sum_log_y=float(np.nansum(np.log(data)))))
            if np.asarray(g).shape != exp_g.shape or not interp.close(np.asarray(g, dtype=float), exp_g, rtol=1e-7, atol=1e-7):
                fail('Estimator', 'sensitivities', dict(got=np.asarray(g).tolist(), expected=exp_g.tolist()))
            # ---- the SAME filter object scores another number of simulated individuals (6 instead of 4), then the first array
            # again: every call is a function of the array it is given
            while True:
                sim6 = np.round(rng.uniform(0.6, 2.5, size=(6, n_obs, nt)), 3)
                if min(np.var(sim6[:3], axis=0).min(), np.var(sim6[3:], axis=0).min(),
                       np.var(np.log(sim6[:3]), axis=0).min(), np.var(np.log(sim6[3:]), axis=0).min()) > 1e-2:
                    break
            e6 = float(np.real(ref(sim6.astype(complex))))
            v6 = plain.compute_log_likelihood(sim6.copy())
            s6, g6 = plain.compute_sensitivities(sim6.copy())
            v4 = plain.compute_log_likelihood(sim.copy())
            cnt['evaluations'] = cnt.get('evaluations', 0) + 3
            if not (interp.close(v6, e6) and interp.close(s6, e6)):
                fail('Estimator', 'value_for_another_number_of_simulated_individuals', dict(got=[float(v6), float(s6)], expected=e6))
            elif not interp.close(np.asarray(g6, dtype=float), grad_sim(ref, sim6), rtol=1e-7, atol=1e-7):
                fail('Estimator', 'sensitivities_for_another_number_of_simulated_individuals', None)
            if not interp.close(v4, exp_v):
                fail('Estimator', 'value_after_another_number_of_simulated_individuals', dict(got=float(v4), expected=exp_v))
            # ---- missing-data / individual-permutation invariance ------------------------------
            pad = np.concatenate([data, np.full((1, n_obs, nt), np.nan)], axis=0)
            perm = rng.permutation(n_ids)
            for nm, d2 in (('pad_missing', pad), ('permute_individuals', data[perm])):
                v2 = make(kind, d2).compute_log_likelihood(sim.copy())
                s2, g2 = make(kind, d2).compute_sensitivities(sim.copy())
                if not interp.close(v2, v) or not interp.close(np.asarray(g2, dtype=float), np.asarray(g, dtype=float)):
                    fail('MissingInvariant', nm, dict(got=float(v2), expected=float(v)))
            # ---- an outlier: one measurement far from every simulated value; the documented density is finite there ----
            out = data.copy()
            cells = np.argwhere(~np.isnan(out))
            i_, r_, j_ = cells[int(rng.integers(len(cells)))]
            out[i_, r_, j_] = 1e30 if kind.startswith('LogNormal') else 200.0
            refo = reference(kind, out)
            eo = float(np.real(refo(sim.astype(complex))))
            ego = grad_sim(refo, sim)
            fo = make(kind, out.copy())
            vo = fo.compute_log_likelihood(sim.copy())
            so, go = fo.compute_sensitivities(sim.copy())
            cnt['evaluations'] = cnt.get('evaluations', 0) + 2
            cnt['outlier_cases'] = 1
            if not interp.close(vo, eo) or not interp.close(so, eo):
                fail('Estimator', 'outlier_value', dict(got=[float(vo), float(so)], expected=eo, cell=[int(i_), int(r_), int(j_)]))
            elif not interp.close(np.asarray(go, dtype=float), ego, rtol=1e-7, atol=1e-7):
                fail('Estimator', 'outlier_sensitivities', dict(got=np.asarray(go, dtype=float).tolist(), expected=ego.tolist()))
            co = chi.ComposedPopulationFilter([make(kind, out[..., :cut].copy()), make(kind, out[..., cut:].copy())])
            if not interp.close(co.compute_log_likelihood(sim.copy()), eo):
                fail('PairingOK', 'composed_vs_plain_outlier', dict(expected=eo))
            # ---- histories of sort_times ----------------------------------------------------------
            c0 = composed.compute_log_likelihood(sim.copy())
            if not interp.close(c0, v):
                fail('PairingOK', 'composed_vs_plain_unsorted', dict(composed=float(c0), plain=float(v)))
            T = np.arange(nt)
            for step, order in enumerate(hist):
                o = np.array(order) - 1
                plain.sort_times(o)
                composed.sort_times(o)
                T = T[o]
                sim_cur = sim[..., T]
                pv = plain.compute_log_likelihood(sim_cur.copy())
                cv = composed.compute_log_likelihood(sim_cur.copy())
                ps, pg = plain.compute_sensitivities(sim_cur.copy())
                cs, cg = composed.compute_sensitivities(sim_cur.copy())
                cnt['evaluations'] = cnt.get('evaluations', 0) + 4
                ctx = dict(step=step, hist=hist[:step + 1], T=(T + 1).tolist())
                if not interp.close(pv, v):
                    fail('PairingOK', 'plain_after_sort', dict(ctx, got=float(pv), expected=float(v)))
                if not interp.close(cv, v):
                    fail('PairingOK', 'composed_after_sort', dict(ctx, got=float(cv), expected=float(v)))
                g0 = np.asarray(g, dtype=float)
                if not interp.close(np.asarray(pg, dtype=float), g0[..., T], rtol=1e-8, atol=1e-8):
                    fail('SensOrderOK', 'plain_after_sort', ctx)
                if not interp.close(np.asarray(cg, dtype=float), g0[..., T], rtol=1e-8, atol=1e-8):
                    fail('SensOrderOK', 'composed_after_sort', ctx)
                if fails:
                    break
        # ---- a composed filter NESTED in a composed filter, the inner one re-ordered before it is nested: the outer filter scores
        # the simulated measurements in the order its parts now have (inner block: time 2, time 1; then the rest)
        if nt >= 3 and not fails:
            with warnings.catch_warnings():
                warnings.simplefilter('ignore', RuntimeWarning)
                inner = chi.ComposedPopulationFilter([make(kind, data[..., 0:1].copy()), make(kind, data[..., 1:2].copy())])
                inner.sort_times(np.array([1, 0]))
                outer = chi.ComposedPopulationFilter([inner, make(kind, data[..., 2:].copy())])
                o_n = np.array([1, 0] + list(range(2, nt)))
                nv = outer.compute_log_likelihood(sim[..., o_n].copy())
                ns_, ng = outer.compute_sensitivities(sim[..., o_n].copy())
            cnt['evaluations'] = cnt.get('evaluations', 0) + 2
            cnt['nested_composed_filters'] = 1
            if not (interp.close(nv, v) and interp.close(ns_, v)):
                fail('PairingOK', 'nested_composed_after_inner_sort', dict(got=[float(nv), float(ns_)], expected=float(v)))
            elif not interp.close(np.asarray(ng, dtype=float), np.asarray(g, dtype=float)[..., o_n], rtol=1e-8, atol=1e-8):
                fail('SensOrderOK', 'nested_composed_after_inner_sort', None)
        if not np.array_equal(data_in, data, equal_nan=True):
            fail('NoInputWrite', 'data_modified', None)
    except Exception as e:
        fail('Evaluable', type(e).__name__, repr(e))
    return fails, cnt
