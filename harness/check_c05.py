"""C05 -- population models: documented densities, additive, layout-invariant, exact.

Module PopLeaf: TLC checks, for every (kind, centred, nDim, nIds, layout, return form, upstream), that the
three parameter layouts are views of one map and that each return form places every per-individual
contribution exactly once, with lengths equal to the reported counts.  Every configuration is run
through the real leaf model (value, transform, sensitivities in that return form, with / without
upstream sensitivities; tensor layout also with per-individual values) against the documented
density and its exact derivatives.  Additivity of compositions on their own dimension / parameter /
covariate ranges is exercised through module PopLayout (hierarchical value and gradient of every
composition = sum of the parts)."""
import json

from . import tlc, interp, poplayout_run
from .cache import cached
from .common import MachineryError
from .verdict import Verdict, pmap

PROP = 'C05'
ASSUME = [
    'documented densities / transforms from harness/interp.py; derivatives by complex step (1e-8)',
    'upstream sensitivities are realised as a linear functional of the individual parameters',
    'parameter values seeded inside the support; one boundary point per case (negative scale; pooled / heterogeneous mismatch)',
]


def _compute(tier, seed):
    r = tlc.run('PopLeaf', 'PopLeaf_%s.cfg' % tier)
    from . import replay_popleaf
    results = pmap(replay_popleaf.replay_case, [(rec, seed) for rec in r.records])
    reps = []
    for k in range(3 if tier == 'quick' else 20):
        reps += replay_popleaf.representation_checks(seed * 100 + k)
    return dict(run=r.summary(), records=r.records, results=results, representations=reps)


def run(tier, seed):
    v = Verdict(PROP, tier, seed)
    problems = interp.self_test()
    if problems:
        raise MachineryError('interpretation table self-test: %s' % problems)
    out = cached('popleaf', tier, seed, lambda: _compute(tier, seed))
    for fails, cnt in out['results']:
        v.failures(fails)
        v.merge_counters(cnt)
    for clause, man, detail in out['representations']:
        v.failure(dict(case=dict(stage='representations'), clause=clause, manifestation=man, detail=detail, features=['representations']))
    # additivity / composition part: the PopLayout replay (Denotation + gradient clauses)
    comp = poplayout_run.run(tier, seed)
    ncomp = 0
    for fails, cnt in comp['results']:
        mine = [f for f in fails if f['clause'] in ('Denotation', 'GradSlotOK', 'Evaluable', 'EvaluableS1')]
        for f in mine:
            f = dict(f, clause='Additive:' + f['clause'])
            v.failure(f)
        ncomp += 1
    recs = out['records']
    for rec in recs[:2] + recs[-1:]:
        v.sample(rec)
    nt = sum(1 for rec in recs if rec['ndim'] > 1 or rec['layout'] != 'flat' or rec['form'] != 'separate')
    if nt == 0:
        v.vacuous('vacuous run')
    cov = dict(states=out['run']['states'] + sum(r['states'] for r in comp['runs']),
               transitions=out['run']['transitions'] + sum(r['transitions'] for r in comp['runs']),
               traces_validated_against_impl=len(recs) + ncomp, evaluations=v.counters.get('evaluations', 0),
               distinct_nontrivial=nt, exhaustive=True,
               rule='TLC enumerates kind x centred x nDim x nIds x layout x return form x upstream; non-trivial = '
                    'nDim > 1 or a non-flat layout or a non-default return form; plus every PopLayout composition '
                    '(%d) for additivity' % ncomp,
               tlc_runs=[out['run']] + comp['runs'])
    return v.finish('model_checking', cov, ASSUME)


def replay(path):
    from . import replay_popleaf, replay_poplayout
    rep = json.load(open(path))
    cfg = rep['case']['config']
    if 'subs' in cfg:
        fails, _ = replay_poplayout.replay_case((cfg, rep['seed']))
    else:
        fails, _ = replay_popleaf.replay_case((cfg, rep['seed']))
    v = Verdict(PROP, 'quick', rep['seed'])
    bad = [f for f in fails if v.failure(f)]
    for f in bad:
        print('VIOLATION property=%s replay=%s' % (PROP, path))
        print('  clause=%s manifestation=%s detail=%s' % (f['clause'], f['manifestation'], str(f['detail'])[:400]))
        return 1
    print('replay passes (or only known findings)')
    return 0
