"""spec -> code for module PopLayout: every composition TLC enumerates is built from the real
chi population models (composed / covariate / reduced), wrapped in a real
chi.HierarchicalLogLikelihood over nIds individual likelihoods (ProbeMech + Gaussian error), and
compared with what the specification predicts: counts, names, IDs, special-dimension table, and --
reading the flat vector through the specification's Layout -- the value and the exact gradient of
the documented hierarchical log-likelihood (C02, C03, C17).
"""
import warnings

import numpy as np

from . import interp, probes
from .common import digest, scribble

chi = probes.chi
import pints  # noqa: E402

KIND_CLASS = {'G': 'GaussianModel', 'LN': 'LogNormalModel', 'TG': 'TruncatedGaussianModel',
              'P': 'PooledModel', 'H': 'HeterogeneousModel'}


def features(rec):
    f = []
    subs = rec['subs']
    if any(m['kind'] == 'TG' for m in subs):
        f.append('has_TG')
    if any(m['kind'] == 'TG' and m['nd'] > 1 for m in subs):
        f.append('has_TG_multidim')
    if any(m['kind'] in ('P', 'H') and m['cov'] > 0 for m in subs):
        f.append('cov_wrapped_special')
    if any(m['kind'] == 'H' and m['cov'] > 0 for m in subs):
        f.append('cov_wrapped_H')
    if any(m['kind'] == 'P' and m['cov'] > 0 for m in subs):
        f.append('cov_wrapped_P')
    if any(m['cov'] > 0 for m in subs):
        f.append('has_cov')
    if rec['fixed']:
        f.append('has_fixed')
    if rec['fixed'] and any(m['kind'] == 'H' for m in subs):
        f.append('fixed_with_hetero')
    if any(m['kind'] == 'H' for m in subs):
        f.append('has_H')
    if any(m['kind'] == 'P' for m in subs):
        f.append('has_P')
    if any(not m['cen'] for m in subs):
        f.append('has_noncentred')
    if len(subs) == 1:
        f.append('single_submodel')
    if rec['nids'] == 1:
        f.append('one_individual')
    if rec['nbottom'] == 0:
        f.append('no_bottom')
    return f


def nontrivial(rec):
    """exercises the interleaving bookkeeping: >= 2 sub-models or a special / covariate /
    non-centred / fixed dimension"""
    return len(rec['subs']) > 1 or any(m['kind'] in ('P', 'H') or m['cov'] > 0 or not m['cen'] for m in rec['subs']) \
        or bool(rec['fixed'])


def build_leaf(m):
    cls = getattr(chi, KIND_CLASS[m['kind']])
    if m['kind'] in ('G', 'LN'):
        leaf = cls(n_dim=m['nd'], centered=m['cen'])
    else:
        leaf = cls(n_dim=m['nd'])
    if m['cov'] > 0:
        leaf = chi.CovariatePopulationModel(leaf, chi.LinearCovariateModel(n_cov=m['cov']))
    return leaf


def slot_value(slot, subs, rng):
    """well-conditioned seeded value for a slot (see module docstring of check_c02)"""
    tag, a, b, c = slot
    if tag == 'eta':
        return None  # decided by the owning sub-model, see draw_values
    m = subs[a - 1]
    if tag == 'beta':
        return round(float(rng.uniform(-0.1, 0.1)), 3)
    if m['kind'] in ('P', 'H'):
        return round(float(rng.uniform(0.6, 1.8)), 3)
    if m['kind'] == 'LN':
        return round(float(rng.uniform(-0.2, 0.3)), 3) if b == 1 else round(float(rng.uniform(0.3, 0.5)), 3)
    return round(float(rng.uniform(1.0, 1.5)), 3) if b == 1 else round(float(rng.uniform(0.3, 0.5)), 3)


def sub_of_dim(subs, d):
    off = 0
    for j, m in enumerate(subs):
        if off < d <= off + m['nd']:
            return j, d - off
        off += m['nd']
    raise ValueError(d)


def draw_values(rec, rng):
    subs = rec['subs']
    vals = {}
    for slot in rec['topfull']:
        vals[tuple(slot)] = slot_value(slot, subs, rng)
    for slot in rec['layout']:
        if slot[0] == 'eta':
            j, _ = sub_of_dim(subs, slot[2])
            m = subs[j]
            if m['cen']:
                vals[tuple(slot)] = round(float(rng.uniform(0.6, 1.8)), 3)
            else:
                vals[tuple(slot)] = round(float(rng.uniform(-1.0, 1.0)), 3)
    return vals


class Reference(object):
    """The documented hierarchical log-likelihood, evaluated on the specification's layout."""

    def __init__(self, rec, data, covs, fixed_vals):
        self.rec = rec
        self.subs = rec['subs']
        self.nids = rec['nids']
        self.ndim = rec['ndim']
        self.data = data
        self.covs = covs
        self.pos = {tuple(s): k for k, s in enumerate(rec['layout'])}
        self.fixed_vals = fixed_vals
        self.covoff = np.cumsum([0] + [m['cov'] for m in self.subs])

    def get(self, x, slot):
        k = self.pos.get(slot)
        if k is None:
            return self.fixed_vals[slot]
        return x[k]

    def vartheta(self, x, i, j, p, dl):
        m = self.subs[j]
        v = self.get(x, ('theta', j + 1, p, dl))
        if m['cov'] > 0:
            s = (p - 1) * m['nd'] + dl
            for c in range(1, m['cov'] + 1):
                v = v + self.get(x, ('beta', j + 1, s, c)) * self.covs[i - 1][self.covoff[j] + c - 1]
        return v

    def psi_and_pop(self, x):
        pop = 0.0
        psi = [[None] * self.ndim for _ in range(self.nids)]
        for d in range(1, self.ndim + 1):
            j, dl = sub_of_dim(self.subs, d)
            m = self.subs[j]
            for i in range(1, self.nids + 1):
                if m['kind'] == 'P':
                    psi[i - 1][d - 1] = self.vartheta(x, i, j, 1, dl)
                elif m['kind'] == 'H':
                    psi[i - 1][d - 1] = self.vartheta(x, i, j, i, dl)
                else:
                    eta = self.get(x, ('eta', i, d, 0))
                    loc = self.vartheta(x, i, j, 1, dl)
                    sc = self.vartheta(x, i, j, 2, dl)
                    if m['cen']:
                        psi[i - 1][d - 1] = eta
                        if m['kind'] == 'G':
                            pop = pop + interp.pop_gauss(eta, loc, sc)
                        elif m['kind'] == 'LN':
                            pop = pop + interp.pop_lognormal(eta, loc, sc)
                        else:
                            pop = pop + interp.pop_truncgauss(eta, loc, sc)
                    else:
                        pop = pop + interp.std_normal(eta)
                        if m['kind'] == 'G':
                            psi[i - 1][d - 1] = loc + sc * eta
                        else:
                            psi[i - 1][d - 1] = np.exp(loc + sc * eta)
        return psi, pop

    def individual(self, i, psi_i):
        t, y = self.data[i]
        mech_par = list(psi_i[:-1]) + ([self.rec['_llfix']] if self.rec.get('_llfix') is not None else [])
        pred = probes.probe_output(0, t, mech_par)
        sig = psi_i[-1]
        tot = 0.0
        for n in range(len(t)):
            tot = tot + interp.gauss(y[n], pred[n], sig)
        return tot

    def __call__(self, x):
        psi, pop = self.psi_and_pop(x)
        tot = pop
        for i in range(self.nids):
            tot = tot + self.individual(i, psi[i])
        return tot


# The ID of an individual is a LABEL (PopLayout!LLId is one concretisation): every other case names the individuals the way
# datasets do -- numbers in data order, neither sorted nor in lexicographic order ('12' < '3' < '7' as strings)
LABELS = ['7', '12', '3', '10', '1', '25', '2', '9', '30', '4']


def relabel(rec, key):
    if (int(key, 16) // 17) % 2:
        return False
    tr = {'Log-likelihood %d' % (i + 1): l for i, l in enumerate(LABELS)}
    rec['_labels'] = LABELS
    for f in ('ids', 'uniqueids'):
        if f in rec:
            rec[f] = [tr.get(i, i) for i in rec[f]]
    return True


def build(rec, rng, tag):
    """Builds the real objects for a configuration. Returns (hll, pop, lls, data, covs, fixed_vals, vals)."""
    subs = rec['subs']
    nids, ndim = rec['nids'], rec['ndim']
    leaves = [build_leaf(m) for m in subs]
    if len(leaves) == 1 and rng.integers(2) == 0:
        pop = leaves[0]
    else:
        pop = chi.ComposedPopulationModel(leaves)
    vals = draw_values(rec, rng)
    fixed_vals = {}
    if rec['fixed']:
        if rng.integers(2) == 0:
            pop.set_n_ids(nids)
            pop = chi.ReducedPopulationModel(pop)
        else:
            # wrap first, then let the wrapper forward the number of individuals (as the
            # hierarchical likelihood and the problem controller do)
            rec['_reduced_before_nids'] = True
            pop = chi.ReducedPopulationModel(pop)
            pop.set_n_ids(nids)
        d = {}
        for k in rec['fixed']:
            slot = tuple(rec['topfull'][k - 1])
            d[rec['topnamesfull'][k - 1]] = vals[slot]
            fixed_vals[slot] = vals[slot]
        pop.fix_parameters(d)
    data = []
    lls = []
    llfix = round(float(rng.uniform(0.5, 1.5)), 3) if rng.integers(3) == 0 else None
    rec['_llfix'] = llfix
    for i in range(nids):
        nt = int(rng.integers(1, 4))
        t = np.sort(np.round(rng.uniform(0.1, 3.0, size=nt), 2))
        y = np.round(rng.uniform(1.0, 4.0, size=nt), 3)
        data.append((t, y))
        if llfix is None:
            mech = probes.ProbeMech(ndim - 1, 1, tag=tag + 'm%d' % i)
            lls.append(chi.LogLikelihood(mech, chi.GaussianErrorModel(), y, t))
        else:
            # the individual likelihoods carry a parameter fixed at THEIR level (C03: "with or without fixed parameters"):
            # one more mechanistic parameter, the last one fixed -- names and dimensions of the free ones are unchanged
            mech = probes.ProbeMech(ndim, 1, tag=tag + 'm%d' % i)
            ll = chi.LogLikelihood(mech, chi.GaussianErrorModel(), y, t)
            ll.fix_parameters({'P%d' % ndim: llfix})
            lls.append(ll)
    if rec.get('_labels'):
        for i, ll in enumerate(lls):
            ll.set_id(rec['_labels'][i])
    covs = np.round(rng.uniform(0.0, 1.0, size=(nids, max(rec['ncov'], 1))), 2)[:, :rec['ncov']]
    hll = chi.HierarchicalLogLikelihood(lls, pop, covariates=covs if rec['ncov'] > 0 else None)
    return hll, pop, lls, data, covs, fixed_vals, vals


def replay_case(arg):
    rec, seed = arg
    fails = []
    cnt = {'cases': 1}
    cfg0 = {k: v for k, v in rec.items() if not k.startswith('_')}      # (what a replay file carries)
    rec = dict(cfg0)
    key = digest(cfg0)
    rng = np.random.default_rng([seed, int(key, 16) % (2 ** 31)])
    feats = features(rec)
    if relabel(rec, key):
        feats.append('custom_ids_not_sorted')
    if nontrivial(rec):
        cnt['nontrivial'] = 1
    for f in feats:
        cnt['feat_' + f] = 1

    def fail(clause, manifestation, detail):
        fails.append(dict(case=dict(config=cfg0), clause=clause, manifestation=manifestation,
                          detail=detail, features=feats))

    try:
        with warnings.catch_warnings():
            warnings.simplefilter('error', RuntimeWarning)
            hll, pop, lls, data, covs, fixed_vals, vals = build(rec, rng, 'p' + key)
        if rec.get('_llfix') is not None:
            feats.append('likelihood_level_fixed')
            cnt['feat_likelihood_level_fixed'] = 1
    except Exception as e:
        if rec.get('_reduced_before_nids') and any(m['kind'] == 'H' for m in rec['subs']) and rec['nids'] > 1:
            feats.append('reduced_before_nids_hetero')
        fail('Construct', type(e).__name__, repr(e))
        return fails, cnt
    if rec.get('_reduced_before_nids') and any(m['kind'] == 'H' for m in rec['subs']) and rec['nids'] > 1:
        feats.append('reduced_before_nids_hetero')
    n = rec['nbottom'] + rec['ntop']
    snap = [covs.copy()] + [(t_.copy(), y_.copy()) for t_, y_ in data]       # what the constructors were handed
    # ---- counts, names, IDs (C02 names/IDs, C17) -----------------------------------------
    try:
        cnt['scribbles'] = scribble(hll) + scribble(pop)
        obs = dict(
            n_parameters=int(hll.n_parameters()),
            n_top=int(hll.n_parameters(exclude_bottom_level=True)),
            names=list(hll.get_parameter_names()),
            top_names=list(hll.get_parameter_names(exclude_bottom_level=True)),
            ids=[('None' if i is None else i) for i in hll.get_id()],
            nhier=[int(v) for v in pop.n_hierarchical_parameters(rec['nids'])],
            pop_n_parameters=int(pop.n_parameters()),
            pop_names=list(pop.get_parameter_names()),
        )
        exp = dict(
            n_parameters=n, n_top=rec['ntop'], names=rec['names'], top_names=rec['names'][rec['nbottom']:],
            ids=rec['ids'], nhier=[rec['nbottom'], rec['ntop']], pop_n_parameters=rec['ntop'],
            pop_names=rec['names'][rec['nbottom']:])
        for k_ in exp:
            if obs[k_] != exp[k_]:
                fail('NamesIds' if k_ in ('names', 'top_names', 'ids', 'pop_names') else 'Agree', k_,
                     dict(got=obs[k_], expected=exp[k_]))
        if len(obs['names']) != obs['n_parameters'] or len(obs['ids']) != obs['n_parameters']:
            fail('Agree', 'lengths', dict(n=obs['n_parameters'], names=len(obs['names']), ids=len(obs['ids'])))
        if len(set(zip(obs['ids'], obs['names']))) != len(obs['names']):
            fail('UniqueDefault', 'duplicate_names', obs['names'])
        wid = hll.get_parameter_names(include_ids=True)
        exp_wid = [(i + ' ' + nm) if i != 'None' else nm for i, nm in zip(rec['ids'], rec['names'])]
        if list(wid) != exp_wid:
            fail('NamesIds', 'names_with_ids', dict(got=wid, expected=exp_wid))
        # both optional flags at once: the population-level names, each with the ID of ITS position (none)
        wid_top = hll.get_parameter_names(exclude_bottom_level=True, include_ids=True)
        if list(wid_top) != exp_wid[rec['nbottom']:]:
            fail('NamesIds', 'top_names_with_ids', dict(got=wid_top, expected=exp_wid[rec['nbottom']:]))
        sd = pop.get_special_dims()[0]
        got_sd = [[int(e[0]), int(e[1]), int(e[2]), int(e[3]), bool(e[4])] for e in sd]
        if got_sd != [list(e) for e in rec['special']]:
            fail('SpecialTableOK', 'special_dims', dict(got=got_sd, expected=rec['special']))
    except Exception as e:
        fail('Agree', type(e).__name__, repr(e))
    if fails:
        return fails, cnt
    # ---- value and gradient through the specification's layout ---------------------------
    x = np.array([vals[tuple(s)] for s in rec['layout']], dtype=float)
    ref = Reference(rec, data, covs, fixed_vals)
    exp_v = interp.value(ref, x)
    exp_g = interp.grad(ref, x) if n > 0 else np.zeros(0)
    x_in = x.copy()
    try:
        with warnings.catch_warnings():
            warnings.simplefilter('error', RuntimeWarning)
            v = hll(x_in)
    except Exception as e:
        fail('Evaluable', type(e).__name__, dict(op='call', error=repr(e)))
        v = None
    if v is not None:
        cnt['evaluations'] = cnt.get('evaluations', 0) + 1
        if not interp.close(v, exp_v):
            fail('Denotation', 'value', dict(got=float(v), expected=exp_v, x=x.tolist()))
    try:
        with warnings.catch_warnings():
            warnings.simplefilter('error', RuntimeWarning)
            s1 = hll.evaluateS1(x_in)
    except Exception as e:
        fail('EvaluableS1', type(e).__name__, dict(op='S1', error=repr(e)))
        s1 = None
    if s1 is not None:
        cnt['evaluations'] = cnt.get('evaluations', 0) + 1
        sc, g = s1
        g = np.asarray(g, dtype=float)
        if not interp.close(sc, exp_v):
            fail('GradSlotOK', 'score', dict(got=float(sc), expected=exp_v))
        if g.shape != exp_g.shape:
            fail('Agree', 'gradient_length', dict(got=list(g.shape), expected=list(exp_g.shape)))
        elif not interp.close(g, exp_g, rtol=1e-7, atol=1e-7):
            fail('GradSlotOK', 'gradient', dict(got=g.tolist(), expected=exp_g.tolist(), names=rec['names']))
    if not np.array_equal(x_in, x):
        fail('NoInputWrite', 'parameters_modified', None)
    if not (np.array_equal(snap[0], covs) and all(np.array_equal(a, t_) and np.array_equal(b, y_)
                                                  for (a, b), (t_, y_) in zip(snap[1:], data))):
        fail('NoInputWrite', 'constructor_arrays_modified', None)
    # value again after S1 (the sensitivity switch must not matter)
    if v is not None and s1 is not None and not fails:
        v2 = hll(x_in)
        if not interp.close(v2, exp_v):
            fail('HistoryFree', 'value_after_S1', dict(got=float(v2), expected=exp_v))
    # ---- the caller's parameter buffer refilled IN PLACE with another point: the result follows the content ----------
    if not fails and n > 0:
        x2 = x.copy()
        for k_ in range(n):
            if rec['layout'][k_][0] != 'beta':
                x2[k_] = round(float(x[k_] * (1.0 + 0.05 * rng.uniform(-1, 1))), 4)
        # (pooled / heterogeneous values and centred individual parameters stay consistent: every slot is its own entry)
        x_in[...] = x2
        try:
            with warnings.catch_warnings():
                warnings.simplefilter('error', RuntimeWarning)
                v2 = hll(x_in)
                s2 = hll.evaluateS1(x_in)[0]
            cnt['evaluations'] = cnt.get('evaluations', 0) + 2
            e2 = interp.value(ref, x2)
            if not (interp.close(v2, e2) and interp.close(s2, e2)):
                fail('Denotation', 'value_after_buffer_refill', dict(got=[float(v2), float(s2)], expected=e2))
        except Exception as e:
            fail('Evaluable', type(e).__name__, dict(op='buffer refill', error=repr(e)))
        x_in[...] = x
    # ---- representation: a whole-number point handed over as an INTEGER array scores like the same point as floats ------
    if not fails and n > 0:
        xi = np.array([1 + (k_ % 2) if rec['layout'][k_][0] != 'beta' else (k_ % 2) for k_ in range(n)], dtype=int)
        try:
            with warnings.catch_warnings():
                warnings.simplefilter('ignore')
                vf, vi = float(hll(xi.astype(float))), float(hll(xi.copy()))
                sf, gf = hll.evaluateS1(xi.astype(float))
                si, gi = hll.evaluateS1(xi.copy())
            cnt['evaluations'] = cnt.get('evaluations', 0) + 4
            same = (np.isfinite(vf) == np.isfinite(vi)) and (not np.isfinite(vf) or (
                interp.close(vf, vi) and interp.close(float(sf), float(si)) and
                interp.close(np.asarray(gf, dtype=float), np.asarray(gi, dtype=float), rtol=1e-9, atol=1e-9)))
            if not same:
                value_ok = (np.isfinite(vf) == np.isfinite(vi)) and (not np.isfinite(vf) or (interp.close(vf, vi) and
                                                                                          interp.close(float(sf), float(si))))
                fail('Denotation' if not value_ok else 'GradSlotOK', 'integer_vector_scores_differently' if not value_ok
                     else 'integer_vector_gradient', dict(float=[vf, float(sf)], int=[vi, float(si)], x=xi.tolist()))
        except Exception as e:
            fail('Evaluable', type(e).__name__, dict(op='integer vector', error=repr(e)))
    # ---- the individual likelihoods carry their labels on: a second hierarchical likelihood made of one of them and a NEW,
    # unlabelled one (whose position would give it the label the first one already has) is either refused or has distinct IDs
    if not fails and rec['nids'] >= 2 and not rec.get('_labels'):
        try:
            with warnings.catch_warnings():
                warnings.simplefilter('ignore')
                fresh = chi.LogLikelihood(probes.ProbeMech(lls[1]._mechanistic_model.n_parameters(), 1, tag='p' + key + 'x'),
                                          chi.GaussianErrorModel(), data[0][1], data[0][0])
                pop2 = chi.ComposedPopulationModel([chi.PooledModel(n_dim=fresh.n_parameters())])
                try:
                    h2 = chi.HierarchicalLogLikelihood([lls[1], fresh], pop2)
                except ValueError:
                    h2 = None
                    cnt['reused_labelled_likelihood_refused'] = 1
            if h2 is not None:
                wid2 = h2.get_parameter_names(include_ids=True)
                uid2 = h2.get_id(unique=True)
                if len(set(uid2)) != len(uid2) or len(set(wid2)) != len(wid2):
                    fail('UniqueDefault', 'duplicate_ids_after_reusing_a_labelled_likelihood', dict(ids=list(uid2)))
        except Exception as e:
            fail('Evaluable', type(e).__name__, dict(op='reused labelled likelihood', error=repr(e)))
    # ---- a boundary that is INSIDE the domain: the scale of a non-centred Gaussian dimension exactly zero (psi = mu for every
    # individual, the etas still scored as standard normal) -- a finite, documented value
    if not fails and n > 0:
        zslots = [k_ for k_, sl in enumerate(rec['layout']) if sl[0] == 'theta' and sl[2] == 2 and
                  rec['subs'][sl[1] - 1]['kind'] == 'G' and not rec['subs'][sl[1] - 1]['cen'] and rec['subs'][sl[1] - 1]['cov'] == 0]
        if zslots:
            xz = x.copy()
            xz[zslots] = 0.0
            try:
                with warnings.catch_warnings():
                    warnings.simplefilter('ignore')
                    vz = float(hll(xz.copy()))
                    sz = float(hll.evaluateS1(xz.copy())[0])
                ez = interp.value(ref, xz)
                cnt['evaluations'] = cnt.get('evaluations', 0) + 2
                cnt['zero_scale_of_a_noncentred_dimension'] = 1
                if np.isfinite(ez) and not (interp.close(vz, ez) and interp.close(sz, ez)):
                    fail('Denotation', 'value_at_zero_scale_of_a_noncentred_dimension', dict(got=[vz, sz], expected=ez, x=xz.tolist()))
            except Exception as e:
                fail('Evaluable', type(e).__name__, dict(op='zero scale', error=repr(e)))
    # ---- outside the support: plain evaluation and evaluation with sensitivities agree on finiteness -----------
    # (C03, last sentence).  One slot at a time is set to zero or to a negative number -- a scale of the error model or
    # of a population sub-model, an individual parameter of a log-normal / truncated Gaussian dimension, or a harmless
    # location; whatever plain evaluation says (finite or not), evaluateS1 must say the same, with the same finite score.
    if not fails and n > 0:
        for k_ in sorted(set(int(q) for q in rng.integers(n, size=3))):
            xb = x.copy()
            xb[k_] = float(rng.choice([0.0, -0.4]))
            try:
                with warnings.catch_warnings():
                    warnings.simplefilter('ignore')
                    vb = float(hll(xb.copy()))
                    sb = float(hll.evaluateS1(xb.copy())[0])
            except Exception as e:
                fail('FiniteAgree', type(e).__name__, dict(slot=rec['names'][k_], value=xb[k_], error=repr(e)))
                continue
            cnt['out_of_support_points'] = cnt.get('out_of_support_points', 0) + 1
            if not np.isfinite(vb):
                cnt['non_finite_points'] = cnt.get('non_finite_points', 0) + 1
            if np.isfinite(vb) != np.isfinite(sb) or (np.isfinite(vb) and not interp.close(vb, sb)):
                fail('FiniteAgree', 'call_vs_S1', dict(slot=rec['names'][k_], value=xb[k_], call=vb, S1=sb))
    # ---- hierarchical posterior: + log-prior on the population block ----------------------
    if not fails and rec['ntop'] > 0 and (int(key, 16) + seed) % 2 == 0:
        try:
            pri = [pints.GaussianLogPrior(1.0 + 0.05 * k, 1.5) for k in range(rec['ntop'])]
            prior = pints.ComposedLogPrior(*pri) if len(pri) > 1 else pri[0]
            post = chi.HierarchicalLogPosterior(hll, prior)
            with warnings.catch_warnings():
                warnings.simplefilter('error', RuntimeWarning)
                pv = post(x_in)
                pv1, pg1 = post.evaluateS1(x_in)
            top = x[rec['nbottom']:]
            lp = sum(interp.gauss(top[k], 1.0 + 0.05 * k, 1.5) for k in range(rec['ntop']))
            lg = np.concatenate([np.zeros(rec['nbottom']),
                                 np.array([-(top[k] - (1.0 + 0.05 * k)) / 1.5 ** 2 for k in range(rec['ntop'])])])
            if not interp.close(pv, exp_v + lp) or not interp.close(pv1, exp_v + lp):
                fail('Posterior', 'value', dict(got=[float(pv), float(pv1)], expected=exp_v + lp))
            if not interp.close(np.asarray(pg1, dtype=float), exp_g + lg, rtol=1e-7, atol=1e-7):
                fail('PosteriorGrad', 'gradient', None)
            if post.n_parameters() != n or list(post.get_parameter_names()) != rec['names'] \
                    or [('None' if i is None else i) for i in post.get_id()] != rec['ids']:
                fail('NamesIds', 'posterior_names', None)
            cnt['posteriors'] = 1
        except Exception as e:
            fail('Posterior', type(e).__name__, repr(e))
    return fails, cnt
