"""Shared run of module LogLik (serves C01 and the individual-level part of C03): TLC exhaustive pass, the
specification-level negative control, and the replay of every enumerated configuration into chi.LogLikelihood."""
import json

from . import tlc, interp
from .cache import cached
from .common import MachineryError
from .verdict import pmap

# which property judges which clause of the replay (everything else belongs to C01)
C03_CLAUSES = {'GradIsDecl', 'FiniteAgree', 'SensSwitch'}


def _compute(tier, seed):
    problems = interp.self_test()
    if problems:
        raise MachineryError('interpretation table self-test: %s' % problems)
    runs = []
    cfgs = ['LogLik_quick.cfg', 'LogLik_quick3.cfg'] if tier == 'quick' else ['LogLik_allkinds.cfg', 'LogLik_thorough.cfg']
    records = {}
    for cfg in cfgs:
        r = tlc.run('LogLik', cfg, coverage=(tier == 'quick'))
        runs.append(r.summary())
        for rec in r.records:
            records[json.dumps(rec, sort_keys=True)] = rec
    # negative control at the specification level: the as-found mechanism violates Evaluable
    try:
        tlc.run('LogLik', 'LogLik_asfound.cfg', want_records=False)
        raise MachineryError('negative control failed: as-found mask variant was not refuted by TLC')
    except tlc.SpecViolation as e:
        if e.res.violated != 'EvaluableInv':
            raise MachineryError('as-found variant refuted on %s, expected EvaluableInv' % e.res.violated)
    from . import replay_loglik
    recs = list(records.values())
    results = pmap(replay_loglik.replay_case, [(rec, seed) for rec in recs])
    results = list(results) + [replay_loglik.long_series_checks(seed)]
    return dict(runs=runs, records_sample=recs[:2] + recs[-2:], n=len(recs), results=[(f, c) for f, c in results])


def run(tier, seed):
    return cached('loglik', tier, seed, lambda: _compute(tier, seed))
