"""spec -> code for module Plots (C20): sample sequences (bands) and small row sets (routing) that
TLC enumerates are plotted with the real figure classes; the plotly traces are read back and
checked -- band limits are sample values, enclose at least the requested fraction (exact rational
arithmetic), are nested, and equal the specification's exact limits unless a sample sits exactly on
a percentile threshold (where floating point may decide either way); every individual's marker and
dose traces hold exactly its rows; the caller's data frames are bitwise unchanged."""
import warnings
from fractions import Fraction

import numpy as np
import pandas as pd

from . import probes
from .common import digest

chi = probes.chi
import chi.plots  # noqa: E402


def val(code):
    return 1.5 * code


def replay_bands(arg):
    rec, seed = arg
    fails, cnt = [], {'cases': 1}
    v = rec['v']
    feats = ['bands']
    if len(set(v)) < len(v):
        feats.append('ties')
    if rec.get('large'):
        feats.append('large_sample')
    elif any(b['boundary'] for b in rec['bands']):
        feats.append('boundary')
    for f in feats:
        cnt['feat_' + f] = 1

    def fail(clause, manifestation, detail):
        fails.append(dict(case=dict(config=rec), clause=clause, manifestation=manifestation, detail=detail, features=feats))
    n = len(v)
    # time 1: the sequence; time 2: the reversed sequence (a second, different multiset position-wise).  The prediction
    # frame lists the time points in ascending order or -- every other case -- the later time point first (frames of two
    # sampling runs concatenated): the band at a time point is made of the samples AT that time point either way
    # the two time points: (1, 2) or -- every third case -- late in a long study, (100000, 100000.5): time points are told apart
    # exactly, whatever their magnitude
    T1, T2 = ((1.0, 2.0), (1.0, 2.0), (100000.0, 100000.5))[(int(digest(rec), 16) // 24) % 3]
    if T1 > 1.0:
        feats.append('large_times_close_together')
        cnt['feat_large_times_close_together'] = 1
    rows1, rows2 = [], []
    for k, c in enumerate(v):
        rows1.append({'ID': k + 1, 'Time': T1, 'Observable': 'Zeta', 'Value': val(c), 'Dose': np.nan, 'Duration': np.nan})
    for k, c in enumerate(reversed(v)):
        rows2.append({'ID': k + 1, 'Time': T2, 'Observable': 'Zeta', 'Value': val(c) + 0.25, 'Dose': np.nan, 'Duration': np.nan})
    later_first = int(digest(rec), 16) % 2 == 1
    if later_first:
        feats.append('times_not_ascending')
        cnt['feat_times_not_ascending'] = 1
    rows = (rows2 + rows1) if later_first else (rows1 + rows2)
    # shape of the caller's frame: two observables, rows grouped by time (a second observable's row at the end); ONE observable
    # with the rows sample-major (the frames of the individual trajectories concatenated: times 1, 2, 1, 2, ...); one
    # observable, grouped by time.  In the last two every row belongs to the plotted observable (nothing is filtered out).
    layout = (int(digest(rec), 16) // 8) % 3
    cnt['frame_layout_%d' % layout] = 1
    if layout == 1:
        a_, b_ = (rows2, rows1) if later_first else (rows1, rows2)
        rows = [r for pair in zip(a_, b_) for r in pair]
        feats.append('single_observable_sample_major')
    if layout == 0:
        rows.append({'ID': 1, 'Time': T1, 'Observable': 'Alpha', 'Value': 99.0, 'Dose': np.nan, 'Duration': np.nan})
    data = pd.DataFrame(rows)
    before = data.copy(deep=True)
    probs = [Fraction(b['num'], b['den']) for b in rec['bands']]
    for cls in ('PDPredictivePlot', 'PKPredictivePlot'):
        try:
            with warnings.catch_warnings():
                warnings.simplefilter('ignore')
                fig = getattr(chi.plots, cls)()
                # the observable is named, or -- every other case -- left to the documented default: the FIRST observable in
                # the column (here 'Zeta', which is not the alphabetically first one)
                fig.add_prediction(data, observable=('Zeta' if int(digest(rec), 16) % 4 < 2 else None),
                                   bulk_probs=[float(p) for p in probs])
        except Exception as e:
            fail('Evaluable', type(e).__name__, dict(cls=cls, error=repr(e)))
            continue
        cnt['evaluations'] = cnt.get('evaluations', 0) + 1
        traces = [t for t in fig._fig.data if t.fill == 'toself']
        if len(traces) != len(probs):
            fail('Bands', 'n_traces', dict(cls=cls, got=len(traces), expected=len(probs)))
            continue
        limits = {}
        for t in traces:
            p = Fraction(t.text.split(' ')[0]).limit_denominator(1000)
            x = np.asarray(t.x, dtype=float)
            y = np.asarray(t.y, dtype=float)
            if len(x) != 4 or sorted(x[:2]) != [T1, T2] or list(x[2:]) != list(x[:2])[::-1]:
                fail('Bands', 'polygon_times', dict(cls=cls, x=list(x)))
                continue
            i1 = list(x[:2]).index(T1)                         # the polygon runs through the times and back
            limits[p] = dict(upper=y[i1], lower=y[3 - i1], upper2=y[1 - i1], lower2=y[2 + i1])
        samples = [val(c) for c in v]
        for p_, lim in limits.items():
            # the limits drawn at time 2 are the limits of time 1 shifted by the offset of the time-2 samples
            if not (np.isclose(lim['upper2'], lim['upper'] + 0.25, equal_nan=True) and
                    np.isclose(lim['lower2'], lim['lower'] + 0.25, equal_nan=True)):
                fail('LimitsAreSamples', 'limits_of_another_time_point', dict(cls=cls, p=str(p_), limits=lim))
        for b, p in zip(rec['bands'], probs):
            if p not in limits:
                fail('Bands', 'missing_probability', dict(cls=cls, p=str(p)))
                continue
            lo, up = limits[p]['lower'], limits[p]['upper']
            if (not np.isnan(lo) and lo not in samples) or (not np.isnan(up) and up not in samples):
                fail('LimitsAreSamples', 'limit_not_a_sample', dict(cls=cls, p=str(p), lower=lo, upper=up, samples=samples))
            if not np.isnan(lo) and not np.isnan(up):
                inside = sum(1 for s in samples if lo <= s <= up)
                if lo > up or Fraction(inside, n) < p:
                    fail('Encloses', 'fraction', dict(cls=cls, p=str(p), lower=lo, upper=up, inside=inside, n=n, samples=samples))
            if not b['boundary']:
                exp_lo = val(b['lower']) if b['haslower'] else np.nan
                exp_up = val(b['upper']) if b['hasupper'] else np.nan
                if not (np.isclose(lo, exp_lo, equal_nan=True) and np.isclose(up, exp_up, equal_nan=True)):
                    fail('RankRule', 'limits', dict(cls=cls, p=str(p), got=[lo, up], expected=[exp_lo, exp_up], samples=samples))
        ps = sorted(limits)
        for a in range(len(ps)):
            for c in range(a + 1, len(ps)):
                la, ua, lc, uc = limits[ps[a]]['lower'], limits[ps[a]]['upper'], limits[ps[c]]['lower'], limits[ps[c]]['upper']
                if not any(np.isnan(z) for z in (la, ua, lc, uc)) and not (lc <= la and ua <= uc):
                    fail('Nested', 'not_nested', dict(cls=cls, p=str(ps[a]), q=str(ps[c]), inner=[la, ua], outer=[lc, uc]))
    if not data.equals(before):
        fail('NoInputWrite', 'data_frame_modified', None)
    return fails, cnt


def replay_routing(arg):
    rec, seed = arg
    fails, cnt = [], {'cases': 1}
    feats = ['routing']
    rows = rec['rows']
    if len({r['id'] for r in rows}) > 1:
        feats.append('several_individuals')
    if any(r['dose'] != r['dur'] for r in rows):
        feats.append('dose_and_duration_differ')
    for f in feats:
        cnt['feat_' + f] = 1

    def fail(clause, manifestation, detail):
        fails.append(dict(case=dict(config=rec), clause=clause, manifestation=manifestation, detail=detail, features=feats))
    if not rec['ids']:
        cnt['no_row_of_chosen_observable'] = 1
        return fails, cnt
    # every other case: the reading depends on the abstract value only, so that two rows the specification lists twice ARE
    # identical rows (replicate measurements; a table is a sequence of rows, every one of them is drawn)
    jit = 0.0 if int(digest(rec), 16) % 2 else 0.01
    cnt['replicate_rows_identical' if jit == 0.0 else 'row_specific_readings'] = 1
    frame = pd.DataFrame([{'Subject': r['id'], 'T': 0.5 * r['t'], 'Obs': (np.nan if r['obs'] == 'none' else r['obs']),
                           'Val': 1.0 + r['v'] + jit * k, 'Dose': (np.nan if r['dose'] == 0 else 2.0 * r['dose']),
                           'Duration': (np.nan if r['dur'] == 0 else 0.1), 'Note': ('x%d' % k if jit else 'x')} for k, r in enumerate(rows)])
    # missing values: every third case one row of the chosen observable lacks its VALUE or its TIME (not both); the row stays
    # a row -- its pair is (time, missing) or (missing, value), and the pairs after it stay paired as they were
    miss = {}
    a_rows = [k for k, r in enumerate(rows) if r['obs'] == 'A']
    if a_rows and int(digest(rec), 16) % 3 == 0:
        k_m = a_rows[(int(digest(rec), 16) // 3) % len(a_rows)]
        miss[k_m] = 'Val' if (int(digest(rec), 16) // 9) % 2 else 'T'
        frame.loc[frame.index[k_m], miss[k_m]] = np.nan
        feats.append('row_with_a_missing_' + ('value' if miss[k_m] == 'Val' else 'time'))
        cnt['feat_row_with_a_missing_entry'] = 1
    before = frame.copy(deep=True)
    kw = dict(id_key='Subject', time_key='T', obs_key='Obs', value_key='Val')
    exp_traces = []
    for i in rec['ids']:
        pts = [(np.nan if miss.get(k) == 'T' else 0.5 * r['t'], np.nan if miss.get(k) == 'Val' else 1.0 + r['v'] + jit * k)
               for k, r in enumerate(rows) if r['id'] == i and r['obs'] == 'A']
        exp_traces.append((i, pts))
    exp_doses = {i: [(np.nan if miss.get(k) == 'T' else 0.5 * r['t'], 2.0 * r['dose']) for k, r in enumerate(rows)
                     if r['id'] == i and r['dose'] > 0] for i in rec['ids']}
    def same_pts(a_, b_):
        """traces compared pair by pair; a pair with a missing entry may be kept (as chi does) or left out -- what matters is
        that every complete pair is there, in order, paired as in its row"""
        def complete(p_):
            return [tuple(q_) for q_ in p_ if not any(np.isnan(float(z_)) for z_ in q_)]
        return len(a_) == len(b_) and all(complete(p_) == complete(q_) for p_, q_ in zip(a_, b_))
    for cls in ('PDTimeSeriesPlot', 'PDPredictivePlot', 'PKTimeSeriesPlot', 'PKPredictivePlot'):
        try:
            with warnings.catch_warnings():
                warnings.simplefilter('ignore')
                fig = getattr(chi.plots, cls)()
                if cls.startswith('PK'):
                    fig.add_data(frame, observable='A', dose_key='Dose', dose_duration_key='Duration', **kw)
                else:
                    fig.add_data(frame, observable='A', **kw)
        except Exception as e:
            fail('Evaluable', type(e).__name__, dict(cls=cls, error=repr(e)))
            continue
        cnt['evaluations'] = cnt.get('evaluations', 0) + 1
        tr = list(fig._fig.data)
        if cls.startswith('PK'):
            dose_tr = [t for t in tr if t.yaxis in (None, 'y')]
            biom_tr = [t for t in tr if t.yaxis == 'y2']
        else:
            dose_tr, biom_tr = [], tr
        if any(len(np.atleast_1d(t.x)) != len(np.atleast_1d(t.y)) for t in tr):
            fail('RoutingOK', 'trace_with_unequal_numbers_of_times_and_values', dict(cls=cls))
            continue
        got = [(t.name, list(zip(np.asarray(t.x, dtype=float).tolist(), np.asarray(t.y, dtype=float).tolist()))) for t in biom_tr]
        exp = [('ID: %s' % i, pts) for i, pts in exp_traces]
        if not same_pts([g[1] for g in got], [e[1] for e in exp]) or \
                [g[0].replace('ID: ', '') for g in got] != [str(i) for i, _ in exp_traces]:
            fail('RoutingOK', 'marker_traces', dict(cls=cls, got=got, expected=exp))
        if cls.startswith('PK'):
            gotd = [list(zip(np.asarray(t.x, dtype=float).tolist(), np.asarray(t.y, dtype=float).tolist())) for t in dose_tr]
            expd = [exp_doses[i] for i in rec['ids']]
            if not same_pts(gotd, expd):
                fail('RoutingOK', 'dose_traces', dict(cls=cls, got=gotd, expected=expd))
    # ---- add_simulation (Plots!SimTrace): one line through every row of the frame, in frame order -----------------------
    if 'sim' in rec:
        try:
            with warnings.catch_warnings():
                warnings.simplefilter('ignore')
                fig = chi.plots.PDTimeSeriesPlot()
                fig.add_data(frame, observable='A', **kw)
                n0 = len(fig._fig.data)
                fig.add_simulation(frame, time_key='T', value_key='Val')
            new = list(fig._fig.data)[n0:]
            exp_line = [(np.nan if miss.get(k) == 'T' else 0.5 * t_, np.nan if miss.get(k) == 'Val' else 1.0 + v_ + jit * k)
                        for k, (t_, v_) in enumerate(rec['sim'])]
            got_line = [list(zip(np.asarray(t.x, dtype=float).tolist(), np.asarray(t.y, dtype=float).tolist())) for t in new]
            cnt['evaluations'] = cnt.get('evaluations', 0) + 1
            if not same_pts(got_line, [exp_line]) or (new and new[0].mode != 'lines'):
                fail('RoutingOK', 'simulation_line', dict(got=got_line, expected=[exp_line]))
        except Exception as e:
            fail('Evaluable', type(e).__name__, dict(cls='PDTimeSeriesPlot.add_simulation', error=repr(e)))
    if not frame.equals(before):
        fail('NoInputWrite', 'data_frame_modified', None)
    return fails, cnt


def residual_checks(seed):
    """the residual plot pairs each measurement with the mean prediction at its time and leaves the frames alone"""
    fails = []
    rng = np.random.default_rng(seed)
    meas = pd.DataFrame({'ID': [1, 1, 2, 2, 2], 'Time': [1.0, 2.0, 1.0, 2.0, 3.0], 'Observable': ['A'] * 5,
                         'Value': np.round(rng.uniform(1, 3, 5), 3)})
    pred = pd.DataFrame({'ID': list(range(1, 5)) * 3, 'Time': [1.0] * 4 + [2.0] * 4 + [3.0] * 4, 'Observable': ['A'] * 12,
                         'Value': np.round(rng.uniform(1, 3, 12), 3)})
    m0, p0 = meas.copy(deep=True), pred.copy(deep=True)
    try:
        with warnings.catch_warnings():
            warnings.simplefilter('ignore')
            fig = chi.plots.ResidualPlot(meas)
            fig.add_data(pred, observable='A')
        means = {t: pred[pred['Time'] == t]['Value'].mean() for t in (1.0, 2.0, 3.0)}
        for k, i in enumerate((1, 2)):
            t = fig._fig.data[k]
            sub = m0[m0['ID'] == i]
            ex = [means[tt] for tt in sub['Time']]
            ey = [vv - means[tt] for tt, vv in zip(sub['Time'], sub['Value'])]
            if not (np.allclose(np.asarray(t.x, dtype=float), ex) and np.allclose(np.asarray(t.y, dtype=float), ey)):
                fails.append(('RoutingOK', 'residual_trace', dict(individual=i)))
        if not (meas.equals(m0) and pred.equals(p0)):
            fails.append(('NoInputWrite', 'residual_plot_modified_frames', None))
    except Exception as e:
        fails.append(('Evaluable', type(e).__name__, repr(e)))
    return fails


def cohort_checks(seed):
    """Plots!RoutingOK for cohorts larger than any colour palette: "one marker trace per individual" for ANY number of
    individuals (1, 3, 10, 11, 12, 25 -- plotly's qualitative palettes have 10 entries)."""
    fails = []
    rng = np.random.default_rng([seed, 11])
    for n_ids in (1, 3, 10, 11, 12, 25):
        rows = []
        for i in range(n_ids):
            for t in (1.0, 2.0, 3.0)[:1 + i % 3]:
                rows.append({'ID': i + 1, 'Time': t, 'Observable': 'A', 'Value': round(float(rng.uniform(1, 3)), 3),
                             'Dose': np.nan, 'Duration': np.nan})
            rows.append({'ID': i + 1, 'Time': 0.5, 'Observable': np.nan, 'Value': np.nan, 'Dose': 1.0 + i, 'Duration': 0.1})
        frame = pd.DataFrame(rows)
        before = frame.copy(deep=True)
        for cls in ('PDTimeSeriesPlot', 'PDPredictivePlot', 'PKTimeSeriesPlot', 'PKPredictivePlot'):
            try:
                with warnings.catch_warnings():
                    warnings.simplefilter('ignore')
                    fig = getattr(chi.plots, cls)()
                    if cls.startswith('PK'):
                        fig.add_data(frame, observable='A', dose_key='Dose', dose_duration_key='Duration')
                    else:
                        fig.add_data(frame, observable='A')
            except Exception as e:
                fails.append(('Evaluable', type(e).__name__, dict(cls=cls, n_ids=n_ids, error=repr(e))))
                continue
            tr = list(fig._fig.data)
            biom = [t for t in tr if t.yaxis == 'y2'] if cls.startswith('PK') else tr
            dose = [t for t in tr if t.yaxis in (None, 'y')] if cls.startswith('PK') else []
            got = [list(zip(np.asarray(t.x, dtype=float).tolist(), np.asarray(t.y, dtype=float).tolist())) for t in biom]
            sub = frame[frame['Observable'] == 'A']
            exp = [list(zip(sub[sub['ID'] == i + 1]['Time'].tolist(), sub[sub['ID'] == i + 1]['Value'].tolist())) for i in range(n_ids)]
            if got != exp:
                fails.append(('RoutingOK', 'marker_traces_large_cohort', dict(cls=cls, n_ids=n_ids, n_traces=len(got))))
            if cls.startswith('PK'):
                gotd = [list(zip(np.asarray(t.x, dtype=float).tolist(), np.asarray(t.y, dtype=float).tolist())) for t in dose]
                if gotd != [[(0.5, 1.0 + i)] for i in range(n_ids)]:
                    fails.append(('RoutingOK', 'dose_traces_large_cohort', dict(cls=cls, n_ids=n_ids, n_traces=len(gotd))))
        if not frame.equals(before):
            fails.append(('NoInputWrite', 'data_frame_modified', dict(n_ids=n_ids)))
    return fails
