"""Probes: public extension points of chi used to *observe* what chi does with its sub-models.

* ``ProbeMech`` -- a closed-form ``chi.MechanisticModel`` whose outputs are positive, analytic in the
  parameters and injective in (output, time); every ``simulate`` call is recorded in a registry
  that survives ``copy()`` / ``deepcopy`` (keyed by the probe's tag).
* ``recording_error_model(kind)`` -- the real error model of that kind, with the arrays handed to
  ``compute_*`` recorded, so the pairing of predictions and observations is observed, not inferred.
"""
import copy

import numpy as np

from .common import import_chi

chi = import_chi()

# registry: tag -> list of events
LOG = {}


def log_of(tag):
    return LOG.setdefault(tag, [])


def clear(tag=None):
    if tag is None:
        LOG.clear()
    else:
        LOG[tag] = []


def probe_output(o, t, psi):
    """y_o(t; psi): analytic, positive for positive psi, injective in (o, t) on the grids used.

    o is 0-based; t is a real array; psi a (possibly complex) vector.
    """
    t = np.asarray(t)
    y = (o + 1.0) + 0.0 * t
    for k in range(len(psi)):
        y = y + psi[k] * (1 + 0.25 * k) * np.exp(-0.11 * (k + 1) * t / (o + 2.0)) \
            + 0.01 * (k + 1) * psi[k] ** 2 * (t + 0.5) / (o + 1.0)
    return y


def probe_sens(o, t, psi):
    """d y_o / d psi_k, shape (n_times, n_params), closed form."""
    t = np.asarray(t, dtype=float)
    s = np.zeros((len(t), len(psi)))
    for k in range(len(psi)):
        s[:, k] = (1 + 0.25 * k) * np.exp(-0.11 * (k + 1) * t / (o + 2.0)) \
            + 0.02 * (k + 1) * psi[k] * (t + 0.5) / (o + 1.0)
    return s


class ProbeMech(chi.MechanisticModel):
    """Closed-form mechanistic model with n_outputs outputs and n_parameters parameters."""

    def __init__(self, n_parameters=2, n_outputs=1, tag='m', all_outputs=None):
        super(ProbeMech, self).__init__()
        self._np = int(n_parameters)
        self._all_outputs = list(all_outputs) if all_outputs else ['Y%d' % (o + 1) for o in range(n_outputs)]
        self._outputs = list(self._all_outputs)
        self._names = ['P%d' % (k + 1) for k in range(self._np)]
        self._sens = False
        self._sens_names = None
        self.tag = tag

    # identity survives deep copies
    def copy(self):
        return copy.deepcopy(self)

    def enable_sensitivities(self, enabled, parameter_names=None):
        self._sens = bool(enabled)
        self._sens_names = None if parameter_names is None else [str(n) for n in parameter_names]
        log_of(self.tag).append(('sens', bool(enabled)))

    def has_sensitivities(self):
        return self._sens

    def n_outputs(self):
        return len(self._outputs)

    def n_parameters(self):
        return self._np

    def outputs(self):
        return list(self._outputs)

    def parameters(self):
        return list(self._names)

    def set_outputs(self, outputs):
        for o in outputs:
            if o not in self._all_outputs:
                raise KeyError(o)
        self._outputs = list(outputs)

    def set_parameter_names(self, names):
        self._names = [names.get(n, n) for n in self._names] if isinstance(names, dict) else list(names)

    def supports_dosing(self):
        return False

    def simulate(self, parameters, times):
        psi = np.array(parameters, dtype=float)
        times_in = np.array(times, dtype=float)
        log_of(self.tag).append(('simulate', psi.copy(), times_in.copy(), self._sens, id(parameters)))
        if len(psi) != self._np:
            raise ValueError('ProbeMech: wrong number of parameters %d != %d' % (len(psi), self._np))
        idx = [self._all_outputs.index(o) for o in self._outputs]
        out = np.array([probe_output(o, times_in, psi) for o in idx], dtype=float).reshape(len(idx), len(times_in))
        if not self._sens:
            return out
        s = np.zeros((len(times_in), len(idx), self._np))
        for j, o in enumerate(idx):
            s[:, j, :] = probe_sens(o, times_in, psi)
        if self._sens_names is not None:
            cols = [k for k, n in enumerate(self._names) if n in self._sens_names]
            s = s[:, :, cols]
        return out, s


ERROR_CLASSES = {
    'G': 'GaussianErrorModel',
    'M': 'MultiplicativeGaussianErrorModel',
    'C': 'ConstantAndMultiplicativeGaussianErrorModel',
    'L': 'LogNormalErrorModel',
}
_REC_CLASSES = {}


def error_model(kind):
    return getattr(chi, ERROR_CLASSES[kind])()


def recording_error_model(kind, tag):
    """The real error model of ``kind`` with its compute_* inputs recorded under ``tag``."""
    base = getattr(chi, ERROR_CLASSES[kind])
    if kind not in _REC_CLASSES:
        def mk(base):
            class Rec(base):
                def compute_log_likelihood(self, parameters, model_output, observations):
                    log_of(self.tag).append(('ll', np.array(parameters, dtype=float), np.array(model_output, dtype=float),
                                             np.array(observations, dtype=float)))
                    return base.compute_log_likelihood(self, parameters, model_output, observations)

                def compute_pointwise_ll(self, parameters, model_output, observations):
                    log_of(self.tag).append(('pw', np.array(parameters, dtype=float), np.array(model_output, dtype=float),
                                             np.array(observations, dtype=float)))
                    return base.compute_pointwise_ll(self, parameters, model_output, observations)

                def compute_sensitivities(self, parameters, model_output, model_sensitivities, observations):
                    log_of(self.tag).append(('s1', np.array(parameters, dtype=float), np.array(model_output, dtype=float),
                                             np.array(observations, dtype=float), np.array(model_sensitivities, dtype=float)))
                    return base.compute_sensitivities(self, parameters, model_output, model_sensitivities, observations)
            Rec.__name__ = 'Rec' + base.__name__
            return Rec
        _REC_CLASSES[kind] = mk(base)
    em = _REC_CLASSES[kind]()
    em.tag = tag
    return em
