"""C06: the functional form of every cell a sampler returns is IDENTIFIED by running the sampler
under scripted generators (script 0, unit scripts e_j, one random script for verification), the
atoms and coefficients (integers, thanks to integer inputs) are written as a record, and TLC
computes the derived law of every cell with module SampleAlgebra and compares it with the law the
model's log-likelihood scores.  No statistical test, so nothing can flake."""
import warnings

import numpy as np

from . import probes, recgen, interp

chi = probes.chi
DEN = 2


def _run(fn, script):
    with warnings.catch_warnings():
        warnings.simplefilter('ignore')
        with recgen.recording(chi, script=script) as rec:
            out = np.asarray(fn(), dtype=float)
    return out, rec


def identify(fn, rng):
    """returns (atoms, cells, base output shape); cells: list of dict(form, c0, coef)"""
    b0, rec0 = _run(fn, lambda i: 0.0)
    atoms = rec0.atoms
    n = len(atoms)
    scriptable = [j for j, a in enumerate(atoms) if a['family'] in ('normal', 'lognormal')]
    units = {}
    for j in scriptable:
        units[j], _ = _run(fn, lambda i, j=j: 1.0 if i == j else 0.0)
    r = rng.uniform(-1, 1, size=n)
    outr, _ = _run(fn, lambda i: float(r[i]))
    flat0 = b0.flatten()
    cells = []
    tn_vals = {j: a['value'] for j, a in enumerate(atoms) if a['family'] == 'truncnorm'}
    for c in range(len(flat0)):
        coef = [(j, units[j].flatten()[c] - flat0[c]) for j in scriptable if abs(units[j].flatten()[c] - flat0[c]) > 1e-12]
        pred = flat0[c] + sum(cj * r[j] for j, cj in coef)
        if not coef:
            hit = [j for j, v in tn_vals.items() if v == flat0[c]]
            if hit:
                cells.append(dict(form='atom', c0=0.0, coef=[(hit[0], 1.0)]))
            elif abs(outr.flatten()[c] - flat0[c]) < 1e-12:
                cells.append(dict(form='point', c0=flat0[c], coef=[]))
            else:
                cells.append(dict(form='other', c0=0.0, coef=[]))
            continue
        if abs(pred - outr.flatten()[c]) < 1e-9 * max(1, abs(pred)):
            cells.append(dict(form='affine', c0=flat0[c], coef=coef))
            continue
        if flat0[c] > 0 and all(units[j].flatten()[c] > 0 for j, _ in coef) and outr.flatten()[c] > 0:
            l0 = np.log(flat0[c])
            lcoef = [(j, np.log(units[j].flatten()[c]) - l0) for j, _ in coef]
            lpred = l0 + sum(cj * r[j] for j, cj in lcoef)
            if abs(lpred - np.log(outr.flatten()[c])) < 1e-9 * max(1, abs(lpred)):
                cells.append(dict(form='logaffine', c0=l0, coef=lcoef))
                continue
        cells.append(dict(form='other', c0=0.0, coef=[]))
    return atoms, cells, b0.shape


def _int(x):
    v = x * DEN
    r = round(v)
    return int(r) if abs(v - r) < 1e-9 else None


def to_record(name, atoms, cells, claims, groups):
    """integer-coded record for SampleAlgebra; cells whose numbers are not integral become 'other' (undecided)"""
    ratoms = []
    for a in atoms:
        fam = a['family']
        if fam in ('normal', 'lognormal'):
            ratoms.append(dict(fam='normal', loc=0, scale=0, lower=0))
        elif fam == 'truncnorm':
            vals = [_int(a['loc']), _int(a['scale']), _int(a['lower'])]
            ratoms.append(dict(fam='truncnorm', loc=vals[0] if vals[0] is not None else 0,
                               scale=vals[1] if vals[1] is not None else 0, lower=vals[2] if vals[2] is not None else 0))
        else:
            ratoms.append(dict(fam=fam.replace(':', '_'), loc=0, scale=0, lower=0))
    rcells = []
    for c, cl, g in zip(cells, claims, groups):
        c0 = _int(c['c0'])
        coef = [(j + 1, _int(v)) for j, v in c['coef']]
        claim = dict(fam=cl[0], loc=_int(cl[1]), scale=_int(cl[2]), lower=_int(cl[3]) if len(cl) > 3 else 0)
        form = c['form']
        if c0 is None or any(v is None for _, v in coef) or any(claim[k] is None for k in ('loc', 'scale', 'lower')):
            form, c0, coef = 'other', 0, []
            claim = dict(fam=cl[0], loc=0, scale=0, lower=0)
        rcells.append(dict(form=form, c0=c0, coef=[[j, v] for j, v in coef], claim=claim, group=g))
    return dict(name=name, atoms=ratoms, cells=rcells)


# ---------------------------------------------------------------------------------------------
def error_cases():
    out = []
    for kind, pars in (('G', [[2], [3]]), ('M', [[2], [3]]), ('C', [[3, 4], [1, 2]]), ('L', [[2], [4]])):
        for par in pars:
            for mo in ([1, 2], [1, 1, 3]) if kind != 'L' else ([1, 1], [1]):
                for ns in (1, 3):
                    out.append(dict(kind=kind, par=par, mo=mo, ns=ns))
    return out


def error_claim(kind, par, y):
    if kind == 'G':
        return ('normal', y, par[0], 0)
    if kind == 'M':
        return ('normal', y, par[0] * y, 0)
    if kind == 'C':
        return ('normal', y, par[0] + par[1] * y, 0)
    return ('lognormal', np.log(y) - par[0] ** 2 / 2.0, par[0], 0)


def run_error_case(case, rng):
    em = probes.error_model(case['kind'])
    fn = lambda: em.sample(case['par'], case['mo'], n_samples=case['ns'], seed=3)  # noqa
    atoms, cells, shape = identify(fn, rng)
    claims, groups = [], []
    for t, y in enumerate(case['mo']):
        for s in range(case['ns']):
            claims.append(error_claim(case['kind'], case['par'], float(y)))
            groups.append('t%d_s%d' % (t, s))
    return to_record('ErrorModel[%s] par=%s out=%s n=%d' % (case['kind'], case['par'], case['mo'], case['ns']),
                      atoms, cells, claims, groups)


def pop_cases():
    out = []
    for kind in ('G', 'G-nc', 'LN', 'LN-nc', 'TG', 'P'):
        for nd in (1, 2):
            for ns in (1, 3):
                out.append(dict(kind=kind, nd=nd, ns=ns))
    out += [dict(kind='composed', nd=3, ns=2), dict(kind='covariate', nd=1, ns=2), dict(kind='reduced', nd=2, ns=2),
            dict(kind='covariate-nc', nd=1, ns=3), dict(kind='composed-2cov', nd=3, ns=2), dict(kind='composed-2cov', nd=3, ns=3),
            # every leaf that reads a location and a scale behind a covariate model, one covariate row per sample: the draw of
            # sample i is conditional on ITS covariates (non-centred leaves: after the leaf's own transform)
            dict(kind='covariate-ln', nd=1, ns=3), dict(kind='covariate-ln-nc', nd=1, ns=3), dict(kind='covariate-tg', nd=1, ns=3),
            dict(kind='covariate-ln-nc', nd=1, ns=2)]
    return out


def run_pop_case(case, rng):
    k, nd, ns = case['kind'], case['nd'], case['ns']
    covs = None
    if k in ('G', 'G-nc'):
        m = chi.GaussianModel(n_dim=nd, centered=(k == 'G'))
        par = [3, 5][:nd] + [2, 4][:nd]
        claims1 = [('normal', par[d], par[nd + d], 0) for d in range(nd)]
    elif k in ('LN', 'LN-nc'):
        m = chi.LogNormalModel(n_dim=nd, centered=(k == 'LN'))
        par = [1, 2][:nd] + [2, 3][:nd]
        claims1 = [('lognormal', par[d], par[nd + d], 0) for d in range(nd)]
    elif k == 'TG':
        m = chi.TruncatedGaussianModel(n_dim=nd)
        par = [3, 5][:nd] + [2, 4][:nd]
        claims1 = [('truncnorm', par[d], par[nd + d], 0) for d in range(nd)]
    elif k == 'P':
        m = chi.PooledModel(n_dim=nd)
        par = [3, 5][:nd]
        claims1 = [('point', par[d], 0, 0) for d in range(nd)]
    elif k == 'composed':
        m = chi.ComposedPopulationModel([chi.GaussianModel(), chi.LogNormalModel(centered=False), chi.PooledModel()])
        par = [3, 2, 1, 2, 7]
        claims1 = [('normal', 3, 2, 0), ('lognormal', 1, 2, 0), ('point', 7, 0, 0)]
    elif k == 'reduced':
        m = chi.ReducedPopulationModel(chi.ComposedPopulationModel([chi.GaussianModel(), chi.LogNormalModel()]))
        m.fix_parameters({'Std. Dim. 1': 2})
        par = [3, 1, 2]
        claims1 = [('normal', 3, 2, 0), ('lognormal', 1, 2, 0)]
    elif k == 'composed-2cov':
        # two covariate sub-models reading DIFFERENT covariate columns, a plain model in between
        m = chi.ComposedPopulationModel([
            chi.CovariatePopulationModel(chi.GaussianModel(), chi.LinearCovariateModel(n_cov=1)),
            chi.PooledModel(),
            chi.CovariatePopulationModel(chi.LogNormalModel(), chi.LinearCovariateModel(n_cov=2))])   # centred: the draw depends on the covariates
        par = [3, 2, 1, 1, 7, 1, 2, 1, 0, 0, 1]   # G: mean, std, b_mean, b_std | pooled | LN: mu, sd, b_mu(c1,c2), b_sd(c1,c2)
        covs = np.array([[1.0, 2.0, 4.0], [2.0, 5.0, 1.0], [3.0, 1.0, 2.0]][:ns])
        claims1 = None
    elif k in ('covariate-ln', 'covariate-ln-nc', 'covariate-tg'):
        leaf = chi.TruncatedGaussianModel() if k == 'covariate-tg' else chi.LogNormalModel(centered=(k == 'covariate-ln'))
        m = chi.CovariatePopulationModel(leaf, chi.LinearCovariateModel(n_cov=1))
        par = [1, 2, 1, 1]          # location, scale, beta_location, beta_scale
        covs = np.array([[1.0], [2.0], [3.0]][:ns])
        claims1 = None
    else:
        m = chi.CovariatePopulationModel(chi.GaussianModel(centered=(k == 'covariate')), chi.LinearCovariateModel(n_cov=1))
        par = [3, 2, 1, 1]          # mean, std, beta_mean, beta_std
        covs = np.array([[1.0], [2.0], [3.0]][:ns])
        claims1 = None
    m.set_n_ids(ns)

    def fn():
        kw = {} if covs is None else {'covariates': covs}
        eta = m.sample(par, n_samples=ns, seed=5, **kw)
        return m.compute_individual_parameters(np.asarray(par, dtype=float), np.asarray(eta), **kw)
    atoms, cells, shape = identify(fn, rng)
    _STASH[(k, nd, ns)] = (m, par, covs)
    claims, groups = [], []
    for i in range(ns):
        for d in range(nd):
            if claims1 is not None:
                claims.append(claims1[d])
            elif k == 'composed-2cov':
                c = covs[i]
                claims.append([('normal', 3 + 1 * c[0], 2 + 1 * c[0], 0), ('point', 7, 0, 0),
                               ('lognormal', 1 + 1 * c[1] + 0 * c[2], 2 + 0 * c[1] + 1 * c[2], 0)][d])
            else:
                x = covs[i, 0]
                law = 'truncnorm' if k == 'covariate-tg' else 'lognormal' if k.startswith('covariate-ln') else 'normal'
                claims.append((law, par[0] + par[2] * x, par[1] + par[3] * x, 0))
            sub = d if k not in ('G', 'G-nc', 'LN', 'LN-nc', 'TG', 'P') else 0
            groups.append('i%d_d%d' % (i, d))
    return to_record('PopulationModel[%s] n_dim=%d n=%d' % (k, nd, ns), atoms, cells, claims, groups)


_STASH = {}


def likelihood_checks():
    """"Samplers draw from the distribution their LOG-LIKELIHOOD scores": for the centred population models the claimed law of
    every cell (the one the sampler was identified with) is also what compute_log_likelihood scores -- the joint score of
    several individuals, each with its own covariate-shifted parameters, is the sum of the cells' documented log-densities."""
    from scipy import stats
    fails = []
    rng = np.random.default_rng(11)
    for case in pop_cases():
        k, nd, ns = case['kind'], case['nd'], case['ns']
        if k == 'P':
            # a point mass: the sampler only ever returns the pooled vector, so the log-likelihood is finite THERE only -- an
            # individual that deviates in one dimension (and agrees in the others) is outside the support
            run_pop_case(case, rng)
            m, par, covs = _STASH[(k, nd, ns)]
            with warnings.catch_warnings():
                warnings.simplefilter('ignore')
                psi = np.asarray(m.sample(par, n_samples=ns, seed=7), dtype=float).reshape(ns, nd)
                at = float(m.compute_log_likelihood(np.asarray(par, dtype=float), psi.copy()))
                off = psi.copy()
                off[0, 0] += 0.5
                out = float(m.compute_log_likelihood(np.asarray(par, dtype=float), off))
            if not np.isfinite(at) or np.isfinite(out):
                fails.append(('CellLaw', 'point_mass_support', dict(sampler='PopulationModel[P] n_dim=%d n=%d' % (nd, ns),
                                                                    at_the_sample=at, one_dimension_off=out)))
            continue
        if k in ('G-nc', 'LN-nc', 'composed', 'covariate-nc', 'covariate-ln-nc'):
            continue                      # (non-centred leaves score eta)
        rec = run_pop_case(case, rng)
        m, par, covs = _STASH[(k, nd, ns)]
        kw = {} if covs is None else {'covariates': covs}
        with warnings.catch_warnings():
            warnings.simplefilter('ignore')
            psi = np.asarray(m.sample(par, n_samples=ns, seed=7, **kw), dtype=float).reshape(ns, nd)
            got = float(m.compute_log_likelihood(np.asarray(par, dtype=float), psi.copy(), **kw))
        exp = 0.0
        for i in range(ns):
            for d in range(nd):
                cell = rec['cells'][i * nd + d]
                law, a, b = (cell['claim']['fam'], cell['claim']['loc'] / DEN, cell['claim']['scale'] / DEN) \
                    if cell['form'] != 'other' else (None, 0, 0)         # (records carry numbers as multiples of 1 / DEN)
                x = psi[i, d]
                if law == 'normal':
                    exp += stats.norm.logpdf(x, a, b)
                elif law == 'lognormal':
                    exp += stats.lognorm.logpdf(x, b, scale=np.exp(a))
                elif law == 'truncnorm':
                    exp += stats.truncnorm.logpdf(x, -a / b, np.inf, loc=a, scale=b)
                elif law == 'point':
                    exp += 0.0
                else:
                    exp = None
                    break
            if exp is None:
                break
        if exp is not None and not interp.close(got, exp, rtol=1e-9, atol=1e-9):
            fails.append(('CellLaw', 'log_likelihood_scores_another_density',
                          dict(sampler=rec['name'], got=got, expected=float(exp))))
    return fails


def moment_checks():
    """get_mean_and_std against the moments of the documented (claimed) law; numeric, in the harness"""
    from scipy import stats
    fails = []
    ln = chi.LogNormalModel(n_dim=2)
    got = ln.get_mean_and_std([0.1, 0.4, 0.3, 0.5])
    exp = np.array([[stats.lognorm.mean(s, scale=np.exp(mu)) for mu, s in ((0.1, 0.3), (0.4, 0.5))],
                    [stats.lognorm.std(s, scale=np.exp(mu)) for mu, s in ((0.1, 0.3), (0.4, 0.5))]])
    if not interp.close(got, exp):
        fails.append(('Moments', 'LogNormalModel.get_mean_and_std', dict(got=np.asarray(got).tolist(), expected=exp.tolist())))
    tg = chi.TruncatedGaussianModel(n_dim=2)
    got = np.asarray(tg.get_mean_and_std([1.0, 0.2, 0.5, 0.8]))
    exp = np.array([[stats.truncnorm.mean(-mu / s, np.inf, mu, s) for mu, s in ((1.0, 0.5), (0.2, 0.8))],
                    [stats.truncnorm.std(-mu / s, np.inf, mu, s) for mu, s in ((1.0, 0.5), (0.2, 0.8))]])
    if got.shape != exp.shape or not interp.close(got, exp):
        fails.append(('Moments', 'TruncatedGaussianModel.get_mean_and_std', dict(got=got.tolist(), expected=exp.tolist())))
    # log-normal error model: E[y] equals the model output for non-integral inputs (float cross-check of c0)
    em = chi.LogNormalErrorModel()
    for y in (0.7, 2.0, 3.5):
        fn = lambda: em.sample([0.6], [y], n_samples=1, seed=1)  # noqa
        atoms, cells, _ = identify(fn, np.random.default_rng(0))
        c = cells[0]
        if c['form'] != 'logaffine' or abs(c['c0'] - (np.log(y) - 0.18)) > 1e-12 or abs(c['coef'][0][1] - 0.6) > 1e-12:
            fails.append(('CellLaw', 'LogNormalErrorModel mean', dict(y=y, cell=c)))
    fails += hetero_checks()
    fails += likelihood_checks()
    return fails


def hetero_checks(n=600):
    """HeterogeneousModel (alone and inside a composition): its log-likelihood scores exactly the individuals' own
    parameter vectors (rows of the (n_ids, n_dim) matrix the flat vector is read as); so every sample must BE one of those
    rows, every individual must be reachable with the same weight (chi-square at level 1e-9, seeded), and a flat vector and
    the matrix it stands for must give the same samples."""
    from scipy import stats
    fails = []
    for n_ids, n_dim in ((2, 1), (3, 2), (2, 3)):
        m = chi.HeterogeneousModel(n_dim=n_dim)
        m.set_n_ids(n_ids)
        mat = np.array([[10.0 * (i + 1) + d for d in range(n_dim)] for i in range(n_ids)])
        flat = mat.flatten()
        try:
            smp = np.asarray(m.sample(flat, n_samples=n, seed=4), dtype=float)
            smp2 = np.asarray(m.sample(mat, n_samples=n, seed=4), dtype=float)
            comp = chi.ComposedPopulationModel([chi.PooledModel(), chi.HeterogeneousModel(n_dim=n_dim)])
            comp.set_n_ids(n_ids)
            smp3 = np.asarray(comp.sample(np.concatenate([[7.0], flat]), n_samples=50, seed=4), dtype=float)
        except Exception as e:
            fails.append(('CellLaw', 'HeterogeneousModel.sample', dict(n_ids=n_ids, n_dim=n_dim, error=repr(e))))
            continue
        rows = [tuple(r) for r in mat]
        who = [rows.index(tuple(r)) if tuple(r) in rows else -1 for r in smp.reshape(n, n_dim)]
        if -1 in who:
            fails.append(('CellLaw', 'HeterogeneousModel sample is not an individual', dict(
                n_ids=n_ids, n_dim=n_dim, sample=smp.reshape(n, n_dim)[who.index(-1)].tolist(), individuals=mat.tolist())))
            continue
        cnts = np.bincount(who, minlength=n_ids)
        if np.any(cnts == 0) or float(np.sum((cnts - n / n_ids) ** 2 / (n / n_ids))) > stats.chi2.isf(1e-9, n_ids - 1):
            fails.append(('CellLaw', 'HeterogeneousModel individuals not equally likely', dict(counts=cnts.tolist())))
        if smp.shape != smp2.shape or not np.array_equal(smp, smp2):
            fails.append(('CellLaw', 'HeterogeneousModel flat vs matrix parameters', dict(n_ids=n_ids, n_dim=n_dim)))
        if any(tuple(r[1:]) not in rows or r[0] != 7.0 for r in smp3.reshape(50, 1 + n_dim)):
            fails.append(('CellLaw', 'composed heterogeneous block is not an individual', dict(
                n_ids=n_ids, n_dim=n_dim, sample=smp3.reshape(50, -1)[0].tolist())))
    return fails
