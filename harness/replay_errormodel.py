"""spec -> code for module ErrorModel (C04): every abstract case (kind, n, p, sign classes) is
concretised with seeded values per sign class and run through compute_log_likelihood,
compute_pointwise_ll and compute_sensitivities of the real error model; values against the
documented densities, gradients against their exact derivatives (chain rule through the supplied
output sensitivities), result classes against the specification's support rule."""
import warnings

import numpy as np

from . import interp, probes
from .common import scribble, digest

chi = probes.chi


def replay_case(arg):
    rec, seed, reps = arg
    fails, cnt = [], {'cases': 1}
    feats = ['kind_' + rec['kind'], 'class_' + rec['cls']]

    def fail(clause, manifestation, detail):
        fails.append(dict(case=dict(config=rec), clause=clause, manifestation=manifestation, detail=detail, features=feats))
    if not rec['defined']:
        cnt['outside_documented_domain'] = 1
        return fails, cnt
    key = digest(rec)
    rng = np.random.default_rng([seed, int(key, 16) % (2 ** 31)])
    kind, n, p, q = rec['kind'], rec['n'], rec['p'], rec['q']
    mag = rec.get('magnitude', 'unit')
    if mag != 'unit':
        feats.append('magnitude_' + mag)
        cnt['extreme_magnitude_or_long'] = 1
        n = 300 if mag.startswith('long') else 3
    em = probes.error_model(kind)
    scribble(em)
    for rep in range(reps):
        par = []
        for s in rec['scalesign']:
            par.append({'pos': round(float(rng.uniform(0.2, 1.5)), 3), 'zero': 0.0,
                        'neg': -round(float(rng.uniform(0.2, 1.5)), 3)}[s])
        mo = np.round(rng.uniform(0.5, 3.0, size=n), 3)
        if mag.endswith('large'):
            mo = mo * 1e3
            par = [v * 50.0 for v in par] if kind == 'G' else par
        elif mag.endswith('small'):
            mo = mo * 1e-3
            par = [v * 1e-2 for v in par] if kind in ('G', 'C') else par
        elif mag == 'tiny':
            # a change of units (nmol/L -> mol/L): outputs, observations and the ABSOLUTE scales times 1e-9; relative and
            # log scales are pure numbers
            mo = mo * 1e-9
            par = [v * 1e-9 * 0.3 for v in par] if kind == 'G' else ([par[0] * 1e-9 * 0.3] + par[1:] if kind == 'C' else par)
        if rec['outsign'] == 'somezero':
            mo[int(rng.integers(n))] = 0.0
        elif rec['outsign'] == 'someneg':
            mo[int(rng.integers(n))] = -round(float(rng.uniform(0.2, 1.5)), 3)
        elif rec['outsign'] == 'smallneg':
            # negative, with sigma_base + sigma_rel * output = sigma_base / 2 > 0 for the constant-and-multiplicative model
            mo[int(rng.integers(n))] = -round(0.5 * par[0] / par[1], 4) if (kind == 'C' and rec['cls'] != '-inf') else -0.2
        obs = np.round(rng.uniform(0.5, 3.0, size=n), 3) * (1e3 if mag.endswith('large') else 1e-3 if mag.endswith('small') else
                                                             1e-9 if mag == 'tiny' else 1.0)
        S = np.round(rng.uniform(-1, 1, size=(n, p)), 3)
        # the caller's buffers are allocated ONCE per case and refilled in place for every repetition (a preallocated
        # array in a loop): the result depends on the content handed over, not on the identity of the object
        if rep == 0:
            par_in, mo_in, obs_in, S_in = np.array(par, dtype=float), mo.copy(), obs.copy(), S.copy()
        else:
            par_in[...], mo_in[...], obs_in[...] = np.array(par, dtype=float), mo, obs
            if S.size:
                S_in[...] = S
        with warnings.catch_warnings():
            warnings.simplefilter('error', RuntimeWarning)
            try:
                ll = em.compute_log_likelihood(par_in, mo_in, obs_in)
                pw = np.asarray(em.compute_pointwise_ll(par_in, mo_in, obs_in), dtype=float)
                sc, g = em.compute_sensitivities(par_in, mo_in, S_in, obs_in)
                g = np.asarray(g, dtype=float)
            except Exception as e:
                fail('Evaluable', type(e).__name__, dict(error=repr(e), par=par, mo=mo.tolist()))
                return fails, cnt
        cnt['evaluations'] = cnt.get('evaluations', 0) + 3
        if not (np.array_equal(par_in, np.array(par)) and np.array_equal(mo_in, mo) and np.array_equal(obs_in, obs)
                and np.array_equal(S_in, S)):
            fail('NoInputWrite', 'inputs_modified', None)
        if rec['cls'] == '-inf':
            if not (np.isneginf(ll) and np.all(np.isneginf(pw)) and np.isneginf(sc)):
                fail('ClassOf', 'not_minus_inf', dict(ll=float(ll), pw=pw.tolist(), s1=float(sc), par=par, mo=mo.tolist()))
            if pw.shape != (n,) or g.shape != (p + q,):
                fail('GradLength', 'shape_at_minus_inf', dict(pw=list(pw.shape), g=list(g.shape)))
            continue

        def ref(z):     # z = (mech psi (p), error parameters (q)); outputs linear in psi with slope S
            out = mo + (S @ z[:p] if p else 0)
            return sum(interp.ERR[kind](obs[i], out[i], z[p:]) for i in range(n))
        z0 = np.concatenate([np.zeros(p), np.array(par)])
        exp_ll = interp.value(ref, z0)
        exp_pw = np.array([np.real(interp.ERR[kind](obs[i], mo[i], np.array(par, dtype=complex))) for i in range(n)])
        exp_g = interp.grad(ref, z0)
        if not interp.close(ll, exp_ll) or not interp.close(sc, exp_ll):
            fail('Density', 'value', dict(got=[float(ll), float(sc)], expected=exp_ll, par=par))
        if pw.shape != (n,) or not interp.close(pw, exp_pw):
            fail('PointwiseIsTotal', 'pointwise', dict(got=pw.tolist(), expected=exp_pw.tolist()))
        elif not interp.close(np.sum(pw), ll):
            fail('PointwiseIsTotal', 'sum', dict(got=float(np.sum(pw)), expected=float(ll)))
        # representation: whole-number observations handed over with an INTEGER dtype give what the same numbers give as floats
        if rep == 0 and mag == 'unit':
            oi = np.maximum(np.round(obs), 1.0)
            try:
                with warnings.catch_warnings():
                    warnings.simplefilter('ignore')
                    a_ = (em.compute_log_likelihood(np.array(par), mo.copy(), oi.copy()),
                          np.asarray(em.compute_pointwise_ll(np.array(par), mo.copy(), oi.copy()), dtype=float),
                          em.compute_sensitivities(np.array(par), mo.copy(), S.copy(), oi.copy()))
                    b_ = (em.compute_log_likelihood(np.array(par), mo.copy(), oi.astype(int)),
                          np.asarray(em.compute_pointwise_ll(np.array(par), mo.copy(), oi.astype(int)), dtype=float),
                          em.compute_sensitivities(np.array(par), mo.copy(), S.copy(), oi.astype(int)))
                same = interp.close(a_[0], b_[0]) and interp.close(a_[1], b_[1]) and interp.close(a_[2][0], b_[2][0]) and \
                    interp.close(np.asarray(a_[2][1], dtype=float), np.asarray(b_[2][1], dtype=float))
                if not same:
                    fail('Density', 'integer_observations_score_differently', dict(float=float(a_[0]), int=float(b_[0]), par=par))
            except Exception as e:
                fail('Evaluable', type(e).__name__, dict(op='integer observations', error=repr(e)))
        # the same density behind a ReducedErrorModel whose last parameter was fixed to ANOTHER value first and then to the
        # value of this case (a scan over a fixed scale): the density is that of the final value
        if rep == 0 and mag == 'unit':
            try:
                with warnings.catch_warnings():
                    warnings.simplefilter('ignore')
                    rem = chi.ReducedErrorModel(probes.error_model(kind))
                    nm_ = rem.get_parameter_names()[-1]
                    rem.fix_parameters({nm_: abs(par[-1]) * 1.7 + 0.1})
                    rem.fix_parameters({nm_: par[-1]})
                    ll_r = rem.compute_log_likelihood(np.array(par[:-1]), mo.copy(), obs.copy())
                    sc_r, g_r = rem.compute_sensitivities(np.array(par[:-1]), mo.copy(), S.copy(), obs.copy())
                    pw_r = np.asarray(rem.compute_pointwise_ll(np.array(par[:-1]), mo.copy(), obs.copy()), dtype=float)
                cnt['evaluations'] = cnt.get('evaluations', 0) + 3
                if not (interp.close(ll_r, exp_ll) and interp.close(sc_r, exp_ll) and interp.close(pw_r, exp_pw)):
                    fail('Density', 'reduced_model_after_refixing', dict(got=[float(ll_r), float(sc_r)], expected=exp_ll, par=par))
                elif not interp.close(np.asarray(g_r, dtype=float), exp_g[:-1], rtol=1e-8, atol=1e-8):
                    fail('GradOrder', 'reduced_model_after_refixing', dict(got=np.asarray(g_r).tolist(), expected=exp_g[:-1].tolist()))
            except Exception as e:
                fail('Evaluable', type(e).__name__, dict(op='reduced error model', error=repr(e)))
        if g.shape != (p + q,):
            fail('GradLength', 'length', dict(got=list(g.shape), expected=p + q))
        elif not interp.close(g, exp_g, rtol=1e-8, atol=1e-8):
            fail('GradOrder', 'gradient', dict(got=g.tolist(), expected=exp_g.tolist(), par=par))
    return fails, cnt
