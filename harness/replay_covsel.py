"""spec -> code for module CovSel (C07): every selection TLC enumerates is applied to the real
LinearCovariateModel / CovariatePopulationModel.  Integers are compared exactly with the
specification (normalised selection, vartheta, transpose); the covariate population model is then
compared with the underlying model evaluated per individual at the specification's vartheta
(differential oracle), for likelihood, individual parameters and sensitivities, and its parameter
names with the (parameter, dimension, covariate) triple of each beta."""
import warnings

import numpy as np

from . import probes, interp
from .common import scribble, digest

chi = probes.chi

LEAVES = {2: [('GaussianModel', True), ('GaussianModel', False), ('LogNormalModel', True),
              ('LogNormalModel', False), ('TruncatedGaussianModel', True)],
          1: [('PooledModel', True)]}


def features(rec):
    f = []
    if len(rec['sel']) >= 2:
        f.append('two_or_more_pairs')
    if [list(x) for x in rec['sel']] != [list(x) for x in rec['normsel']]:
        f.append('unsorted_or_duplicate_selection')
    if len(rec['normsel']) < len(rec['sel']):
        f.append('duplicates')
    return f


def replay_case(arg):
    rec, seed = arg
    fails, cnt = [], {'cases': 1}
    key = digest(rec)
    rng = np.random.default_rng([seed, int(key, 16) % (2 ** 31)])
    feats = features(rec)
    for f in feats:
        cnt['feat_' + f] = 1

    def fail(clause, manifestation, detail):
        fails.append(dict(case=dict(config=rec), clause=clause, manifestation=manifestation, detail=detail,
                          features=feats))
    nper, nd, nc, ni = rec['nper'], rec['ndim'], rec['ncov'], rec['nids']
    sel0 = [[p - 1, d - 1] for p, d in rec['sel']]
    norm0 = [[p - 1, d - 1] for p, d in rec['normsel']]
    theta = np.array(rec['theta'], dtype=float)
    beta = np.array(rec['beta'], dtype=float)
    covs = np.array(rec['chi'], dtype=float)
    # ---- the covariate model alone: exact integers ------------------------------------------
    cm = chi.LinearCovariateModel(n_cov=nc)
    try:
        cm.set_population_parameters([list(x) for x in sel0] if rng.integers(2) else np.array(sel0))
    except Exception as e:
        fail('SetSelection', type(e).__name__, repr(e))
        return fails, cnt
    scribble(cm)
    pidx, didx = cm.get_set_population_parameters()
    got_sel = [[int(a), int(b)] for a, b in zip(pidx, didx)]
    if got_sel != norm0:
        fail('MechIsDecl', 'selection', dict(got=got_sel, expected=norm0))
    if cm.n_parameters() != rec['nbeta']:
        fail('MechIsDecl', 'n_parameters', dict(got=cm.n_parameters(), expected=rec['nbeta']))
    if not fails:
        try:
            vt = cm.compute_population_parameters(beta.copy(), theta.copy(), covs.copy())
            if not np.array_equal(np.asarray(vt, dtype=float), np.array(rec['vartheta'], dtype=float)):
                fail('Transform', 'vartheta', dict(got=np.asarray(vt).tolist(), expected=rec['vartheta']))
            g = np.array(rec['g'], dtype=float)
            dpop, dcov = cm.compute_sensitivities(beta.copy(), theta.copy(), covs.copy(), g.copy())
            if not np.array_equal(np.asarray(dpop, dtype=float), np.array(rec['dtheta'], dtype=float)):
                fail('Transpose', 'dtheta', dict(got=np.asarray(dpop).tolist(), expected=rec['dtheta']))
            if not np.array_equal(np.asarray(dcov, dtype=float), np.array(rec['dbeta'], dtype=float)):
                fail('Transpose', 'dbeta', dict(got=np.asarray(dcov).tolist(), expected=rec['dbeta']))
            # zero betas / zero covariates: identity
            vt0 = cm.compute_population_parameters(np.zeros_like(beta), theta.copy(), covs.copy())
            vt1 = cm.compute_population_parameters(beta.copy(), theta.copy(), np.zeros_like(covs))
            if not (np.array_equal(vt0, np.broadcast_to(theta, vt0.shape)) and np.array_equal(vt1, np.broadcast_to(theta, vt1.shape))):
                fail('Unselected', 'zero_identity', None)
            cnt['evaluations'] = cnt.get('evaluations', 0) + 4
            # representation: the same whole numbers handed over with an INTEGER dtype (covariates halfway between integers,
            # so that the shifts are not whole numbers) give what they give as floats
            covs_h = covs + 0.5
            vt_f = np.asarray(cm.compute_population_parameters(beta.copy(), theta.copy(), covs_h.copy()), dtype=float)
            vt_i = np.asarray(cm.compute_population_parameters(beta.astype(int), theta.astype(int), covs_h.copy()), dtype=float)
            vt_l = np.asarray(cm.compute_population_parameters([int(b_) for b_ in beta], theta.astype(int), covs_h.copy()), dtype=float)
            if vt_i.shape != vt_f.shape or not (np.array_equal(vt_i, vt_f) and np.array_equal(vt_l, vt_f)):
                fail('Transform', 'integer_parameters_shift_differently', dict(float=vt_f.tolist(), int=vt_i.tolist()))
            cnt['evaluations'] = cnt.get('evaluations', 0) + 3
        except Exception as e:
            fail('Transform', type(e).__name__, repr(e))
    # ---- a heterogeneous leaf (one population parameter per individual and dimension): the wrapper is built for one
    # individual and told the number of individuals afterwards, as a hierarchical likelihood does -- the default selection
    # ("all parameters") is then the selection of ALL the new parameters, every one of them shifted by its covariates
    if ni >= 2:
        try:
            with warnings.catch_warnings():
                warnings.simplefilter('ignore')
                hc = chi.CovariatePopulationModel(chi.HeterogeneousModel(n_dim=nd), chi.LinearCovariateModel(n_cov=nc))
                hc.set_n_ids(ni)
                n_h = ni * nd
                th_h = np.round(rng.uniform(0.8, 1.6, size=n_h), 3)
                be_h = np.round(rng.uniform(-0.3, 0.3, size=n_h * nc), 3)
                cv_h = np.round(rng.uniform(0.2, 1.0, size=(ni, nc)), 2)
                ok_counts = hc.n_parameters() == n_h * (1 + nc) and len(hc.get_parameter_names()) == n_h * (1 + nc)
                psi_h = None
                if ok_counts:
                    psi_h = np.asarray(hc.compute_individual_parameters(np.concatenate([th_h, be_h]), np.zeros((ni, nd)), cv_h),
                                       dtype=float)
            cnt['evaluations'] = cnt.get('evaluations', 0) + 1
            if not ok_counts:
                fail('Names', 'heterogeneous_leaf_after_set_n_ids', dict(n_parameters=hc.n_parameters(), expected=n_h * (1 + nc)))
            else:
                # parameter (individual i, dimension d) is entry i * nd + d of the leaf; its betas follow in selection order
                pidx_h, didx_h = hc.get_covariate_model().get_set_population_parameters() if hasattr(hc, 'get_covariate_model') \
                    else hc._covariate_model.get_set_population_parameters()
                exp_h = th_h.reshape(ni, nd).copy()
                for s_, (p_, d_) in enumerate(zip(pidx_h, didx_h)):
                    exp_h[int(p_), int(d_)] += float(cv_h[int(p_)] @ be_h[s_ * nc:(s_ + 1) * nc])
                if psi_h.shape != exp_h.shape or not interp.close(psi_h, exp_h):
                    fail('Differential', 'heterogeneous_leaf_after_set_n_ids', dict(got=psi_h.tolist(), expected=exp_h.tolist()))
        except Exception as e:
            fail('Differential', type(e).__name__, dict(model='HeterogeneousModel after set_n_ids', error=repr(e)))
    # ---- the covariate population model against the underlying model ------------------------
    for cls, cen in LEAVES[nper]:
        def leaf():
            c = getattr(chi, cls)
            return c(n_dim=nd, centered=cen) if 'Gaussian' in cls and 'Truncated' not in cls or 'LogNormal' in cls else c(n_dim=nd)
        name = cls + ('' if cen else '-nc')
        try:
            cpm = chi.CovariatePopulationModel(leaf(), chi.LinearCovariateModel(n_cov=nc))
            cpm.set_population_parameters(np.array(sel0) if rng.integers(2) else [list(x) for x in sel0])
        except Exception as e:
            fail('SetSelection', type(e).__name__, dict(model=name, error=repr(e)))
            continue
        base = leaf()
        bnames = base.get_parameter_names()
        exp_names = list(bnames) + ['%s Cov. %d' % (bnames[(p - 1) * nd + (d - 1)], c) for (p, d, c) in rec['betaslots']]
        if list(cpm.get_parameter_names()) != exp_names:
            fail('Names', 'names', dict(model=name, got=cpm.get_parameter_names(), expected=exp_names))
        if cpm.n_parameters() != nper * nd + rec['nbeta']:
            fail('Names', 'n_parameters', dict(model=name, got=cpm.n_parameters()))
        # well-conditioned float values
        if cls == 'PooledModel':
            th = np.round(rng.uniform(0.8, 1.6, size=(1, nd)), 3)
        elif cls == 'LogNormalModel':
            th = np.vstack([np.round(rng.uniform(-0.2, 0.3, size=nd), 3), np.round(rng.uniform(0.4, 0.6, size=nd), 3)])
        else:
            th = np.vstack([np.round(rng.uniform(1.0, 1.5, size=nd), 3), np.round(rng.uniform(0.4, 0.6, size=nd), 3)])
        be = np.round(rng.uniform(-0.1, 0.1, size=rec['nbeta']), 3)
        cv = np.round(rng.uniform(0.0, 1.0, size=(ni, nc)), 2)
        vt = np.broadcast_to(th, (ni, nper, nd)).copy()
        for s, (p, d) in enumerate(norm0):
            vt[:, p, d] += cv @ be[s * nc:(s + 1) * nc]
        if cls == 'PooledModel':
            obs = vt[:, 0, :].copy()
        elif cen:
            obs = np.round(rng.uniform(0.6, 1.8, size=(ni, nd)), 3)
        else:
            obs = np.round(rng.uniform(-1, 1, size=(ni, nd)), 3)
        w = np.round(rng.uniform(-1, 1, size=(ni, nd)), 3)
        full = np.concatenate([th.flatten(), be])
        base.set_n_ids(1)
        try:
            with warnings.catch_warnings():
                warnings.simplefilter('error', RuntimeWarning)
                exp_ll, exp_dpsi, exp_D, exp_psi = 0.0, np.zeros((ni, nd)), np.zeros((ni, nper, nd)), np.zeros((ni, nd))
                for i in range(ni):
                    pv = vt[i].flatten()
                    exp_ll += base.compute_log_likelihood(pv, obs[i][None, :])
                    s_, dp_, dt_ = base.compute_sensitivities(pv, obs[i][None, :], dlogp_dpsi=w[i][None, :].copy())
                    exp_dpsi[i] = dp_[0]
                    exp_D[i] = np.asarray(dt_).reshape(nper, nd)
                    exp_psi[i] = np.asarray(base.compute_individual_parameters(pv, obs[i][None, :]))[0]
                exp_dtheta = np.concatenate([exp_D.sum(axis=0).flatten()] + [
                    np.array([np.sum(exp_D[:, p, d] * cv[:, c]) for c in range(nc)]) for (p, d) in norm0])
                cpm.set_n_ids(ni)
                got_ll = cpm.compute_log_likelihood(full.copy(), obs.copy(), cv.copy())
                got_psi = np.asarray(cpm.compute_individual_parameters(full.copy(), obs.copy(), cv.copy()), dtype=float)
                sc, dpsi, dth = cpm.compute_sensitivities(full.copy(), obs.copy(), cv.copy(), dlogp_dpsi=w.copy())
            cnt['evaluations'] = cnt.get('evaluations', 0) + 3
            if not interp.close(got_ll, exp_ll) or not interp.close(sc, exp_ll):
                fail('Differential', 'likelihood', dict(model=name, got=[float(got_ll), float(sc)], expected=float(exp_ll)))
            if got_psi.shape != exp_psi.shape or not interp.close(got_psi, exp_psi):
                fail('Differential', 'individual_parameters', dict(model=name, got=got_psi.tolist(), expected=exp_psi.tolist()))
            if not interp.close(np.asarray(dpsi, dtype=float), exp_dpsi):
                fail('Differential', 'dpsi', dict(model=name, got=np.asarray(dpsi).tolist(), expected=exp_dpsi.tolist()))
            if np.asarray(dth).shape != exp_dtheta.shape or not interp.close(np.asarray(dth, dtype=float), exp_dtheta):
                fail('Differential', 'dtheta', dict(model=name, got=np.asarray(dth).tolist(), expected=exp_dtheta.tolist()))
            # ---- all covariate effects exactly zero: the model coincides with the underlying one, individual by individual
            # (same shapes, too)
            with warnings.catch_warnings():
                warnings.simplefilter('ignore')
                full0 = np.concatenate([th.flatten(), np.zeros(len(be))])
                psi0 = np.asarray(cpm.compute_individual_parameters(full0.copy(), obs.copy(), cv.copy()), dtype=float)
                exp0 = np.zeros((ni, nd))
                for i in range(ni):
                    exp0[i] = np.asarray(base.compute_individual_parameters(th.flatten(), obs[i][None, :]))[0]
            cnt['evaluations'] = cnt.get('evaluations', 0) + 1
            if psi0.shape != exp0.shape or not interp.close(psi0, exp0):
                fail('Unselected', 'zero_effects_do_not_coincide_with_the_underlying_model',
                     dict(model=name, got_shape=list(psi0.shape), expected_shape=list(exp0.shape)))
            # ---- the hierarchical form (reduce=True): for leaves with individual-level parameters the two blocks above joined;
            # for a pooled leaf psi_i = vartheta_0 + sum_c beta_c chi_ic IS a function of the population parameters, so the
            # upstream sensitivities reach vartheta_0 (summed over individuals) AND every beta (weighted by the covariate)
            with warnings.catch_warnings():
                warnings.simplefilter('error', RuntimeWarning)
                out_r = cpm.compute_sensitivities(full.copy(), obs.copy(), cv.copy(), dlogp_dpsi=w.copy(), reduce=True)
            cnt['evaluations'] = cnt.get('evaluations', 0) + 1
            g_r = np.asarray(out_r[1], dtype=float)
            if cls == 'PooledModel':
                exp_r = np.concatenate([w.sum(axis=0)] + [np.array([np.sum(w[:, d] * cv[:, c]) for c in range(nc)])
                                                          for (p, d) in norm0])
            else:
                exp_r = np.concatenate([exp_dpsi.flatten(), exp_dtheta])
            if not interp.close(out_r[0], exp_ll) or g_r.shape != exp_r.shape or not interp.close(g_r, exp_r):
                fail('Differential', 'hierarchical_form', dict(model=name, got=g_r.tolist(), expected=exp_r.tolist()))
            # ---- sampling: an integer seed and the generator made from it give the same draws, and the individuals of one call
            # are drawn independently (no two rows share their standardised noise)
            if cls in ('GaussianModel', 'LogNormalModel') and ni >= 2:
                with warnings.catch_warnings():
                    warnings.simplefilter('ignore')
                    s_int = np.asarray(cpm.sample(full.copy(), n_samples=ni, seed=5, covariates=cv.copy()), dtype=float)
                    s_gen = np.asarray(cpm.sample(full.copy(), n_samples=ni, seed=np.random.default_rng(5), covariates=cv.copy()),
                                       dtype=float)
                cnt['covariate_sampler_calls'] = cnt.get('covariate_sampler_calls', 0) + 1
                if s_int.shape != s_gen.shape or not np.array_equal(s_int, s_gen):
                    fail('Differential', 'sample_int_seed_vs_generator', dict(model=name))
                if cen:
                    zz = (np.log(s_int) if cls == 'LogNormalModel' else s_int)
                    zz = (zz - vt[:, 0, :]) / vt[:, 1, :]
                    if any(np.allclose(zz[a_], zz[b_]) for a_ in range(ni) for b_ in range(a_ + 1, ni)):
                        fail('Differential', 'individuals_share_their_noise', dict(model=name, standardised=zz.tolist()))
            # ---- outside the support for ONE individual only: the covariates drive a selected scale parameter of the first
            # individual below zero; the underlying model scores that individual -inf, so must the covariate model (value
            # and score returned with the sensitivities)
            scale_slots = [s_ for s_, (p_, d_) in enumerate(norm0) if p_ == 1] if nper == 2 else []
            if scale_slots and ni >= 2:
                s_ = scale_slots[0]
                d_ = norm0[s_][1]
                cv2 = np.zeros((ni, nc))
                cv2[0, 0] = 1.0
                be2 = np.zeros(rec['nbeta'])
                be2[s_ * nc] = -(th[1, d_] + 0.3)
                full2 = np.concatenate([th.flatten(), be2])
                with warnings.catch_warnings():
                    warnings.simplefilter('ignore')
                    ref0 = base.compute_log_likelihood(np.concatenate([th[0], [v - (th[1, d_] + 0.3) if q == d_ else v
                                                                                 for q, v in enumerate(th[1])]]), obs[0][None, :])
                    got2 = cpm.compute_log_likelihood(full2.copy(), obs.copy(), cv2.copy())
                    sc2 = cpm.compute_sensitivities(full2.copy(), obs.copy(), cv2.copy())[0]
                cnt['one_individual_outside_support'] = cnt.get('one_individual_outside_support', 0) + 1
                if np.isneginf(ref0) and not (np.isneginf(got2) and np.isneginf(sc2)):
                    fail('Differential', 'one_individual_outside_support', dict(model=name, got=[float(got2), float(sc2)],
                                                                                 expected='-inf', selection=norm0))
        except Exception as e:
            fail('Differential', type(e).__name__, dict(model=name, error=repr(e)))
    return fails, cnt
