"""spec -> code for module MechModel (C11): public-call transitions and walks of the TLC state
graph are executed on real chi.PKPDModel objects (on RefSim); after every call each instance is
compared -- parameter names and counts, outputs, administration, reported regimen, sensitivity
switch and a simulation at a probe vector -- with a FRESH model configured canonically with the
specification's net configuration."""
import os
import warnings

import numpy as np

from . import refsim, sbmlgen
from .common import scribble, digest, WORK

refsim.install()
from . import probes  # noqa: E402

chi = probes.chi

LIB = os.path.join(os.path.dirname(os.path.abspath(chi.__file__)), 'library', 'model_library')

# concrete meaning of the abstract ids, per model family
FAMILIES = {
    'onecomp': dict(
        path=lambda: os.path.join(LIB, 'pk_one_comp.xml'),
        comp='central', amount='drug_amount',
        outs={0: None, 1: ['central.drug_concentration', 'central.drug_amount'], 2: ['central.drug_concentration'], 3: ['central.drug_amount', 'dose.drug_amount']},
        pren=('central.size', 'V'), oren=('central.drug_amount', 'A'),
        values={'central.drug_amount': 1.7, 'central.size': 1.3, 'global.elimination_rate': 0.6,
                'dose.drug_amount': 0.4, 'dose.absorption_rate': 0.9}),
    'chain': dict(
        path=lambda: _chain_path(),
        comp='global', amount='xb',
        outs={0: None, 1: ['global.xb', 'global.yq'], 2: ['global.yq'], 3: ['global.xb', 'dose.drug_amount']},
        pren=('global.ka', 'K'), oren=('global.xb', 'B'),
        values={'global.xa': 1.2, 'global.xb': 0.7, 'global.xc': 0.3, 'global.ka': 0.45, 'global.kb': 0.8,
                'dose.drug_amount': 0.5, 'dose.absorption_rate': 1.1}),
}
REGS = {1: dict(dose=2.0, start=0.5, duration=0.25, period=1.0, num=3),
        2: dict(dose=1.0, start=0.0, duration=0.5)}
TIMES = np.array([0.3, 0.75, 1.6, 2.9])
_CHAIN = {}


def _chain_path():
    p = os.path.join(WORK, 'sbml', 'mech-chain-%d.xml' % os.getpid())
    if p not in _CHAIN:
        os.makedirs(os.path.dirname(p), exist_ok=True)
        sbmlgen.chain_model(3, 2, [3, 1, 2], [2, 1], path=p)
        _CHAIN[p] = True
    return p


def apply_op(model, fam, op, arg):
    F = FAMILIES[fam]
    if op == 'adm':
        model.set_administration(F['comp'], amount_var=F['amount'], direct=(arg == 'direct'))
    elif op == 'reg':
        model.set_dosing_regimen(**REGS[arg])
    elif op == 'outs':
        outs = F['outs'][arg]
        if outs is None:
            outs = default_outputs(model)
        model.set_outputs(list(outs))
    elif op == 'sens':
        model.enable_sensitivities(bool(arg))
    elif op == 'pren':
        model.set_parameter_names({F['pren'][0]: F['pren'][1]})
    elif op == 'oren':
        model.set_output_names({F['oren'][0]: F['oren'][1]})
    elif op == 'sim':
        observe(model, fam)
    elif op == 'bad':
        # MechModel!"bad": a call chi must reject -- and that must leave the model as it was (also its solver)
        try:
            if arg == 'outs':
                model.set_outputs([default_outputs(model)[0], 'no.such_variable'])
            elif arg == 'adm':
                model.set_administration('no_such_compartment', direct=False)
            elif arg == 'sens':
                model.enable_sensitivities(True, ['no.such_parameter'])
            else:
                model.set_parameter_names(['not', 'a', 'dictionary'])
        except (ValueError, KeyError, TypeError) as e:
            raise Rejected(repr(e))
        raise Accepted(arg)   # (whether chi rejects such a call is not what C11 is about; the specification only covers REJECTED calls)
    else:
        raise ValueError(op)


class Rejected(Exception):
    pass


class Accepted(Exception):
    pass


def default_outputs(model):
    """the default output selection: the states of the vanilla model, alphabetically"""
    names = sorted(v.qname() for v in model._vanilla_model.states()) if hasattr(model, '_vanilla_model') \
        else sorted(v.qname() for v in model._model.states())
    return names


def canonical(fam, c):
    """A fresh model to which only the net configuration c is applied, in the canonical order."""
    F = FAMILIES[fam]
    m = chi.PKPDModel(F['path']())
    if c['admin'] != 'none':
        apply_op(m, fam, 'adm', c['admin'])
    if c['reg']:
        apply_op(m, fam, 'reg', c['reg'])
    if c['outs']:
        apply_op(m, fam, 'outs', c['outs'])
    if c['pren']:
        apply_op(m, fam, 'pren', 0)
    if c['oren']:
        if F['oren'][0] in [k for k in m._output_name_map]:
            apply_op(m, fam, 'oren', 0)
    if c['sens']:
        apply_op(m, fam, 'sens', True)
    return m


def observe(model, fam):
    """Projection of the observable behaviour of a model (public API only)."""
    F = FAMILIES[fam]
    scribble(model, ('parameters', 'outputs', 'administration'))
    names = list(model.parameters())
    # probe vector keyed by the myokit names, which the public names map to through the rename table
    inv = {F['pren'][1]: F['pren'][0]}
    vals = [F['values'][inv.get(n, n)] for n in names]
    adm = model.administration()
    obs = dict(
        parameters=names, n_parameters=int(model.n_parameters()), outputs=list(model.outputs()),
        n_outputs=int(model.n_outputs()),
        administration=None if adm is None else (adm['compartment'], bool(adm['direct'])),
        regimen=list(refsim.protocol_events(model.dosing_regimen())),
        has_sensitivities=bool(model.has_sensitivities()), supports_dosing=bool(model.supports_dosing()))
    with warnings.catch_warnings():
        warnings.simplefilter('error', RuntimeWarning)
        res = model.simulate(np.array(vals), TIMES.copy())
    if obs['has_sensitivities']:
        out, sens = res
        obs['sens'] = np.round(np.asarray(sens, dtype=float), 7).tolist()
        # sensitivities for a SUBSET of the (possibly renamed) public names are the corresponding columns of the full array
        if len(names) >= 2 and np.asarray(sens).shape[2] == len(names):
            sub = [0, len(names) - 1]
            if F['pren'][1] in names:          # the renamed parameter is part of the request
                r_ = names.index(F['pren'][1])
                sub = sorted({r_, (r_ + 1) % len(names)})
            model.enable_sensitivities(True, [names[q] for q in sub])
            with warnings.catch_warnings():
                warnings.simplefilter('error', RuntimeWarning)
                _, s_sub = model.simulate(np.array(vals), TIMES.copy())
            model.enable_sensitivities(True)
            if np.asarray(s_sub).shape != (np.asarray(sens).shape[0], np.asarray(sens).shape[1], 2) or \
                    not np.allclose(np.asarray(s_sub, dtype=float), np.asarray(sens, dtype=float)[:, :, sub], rtol=1e-6, atol=1e-8):
                raise AssertionError('sensitivities for the subset %r are not the corresponding columns (shape %r)' % (
                    [names[q] for q in sub], np.asarray(s_sub).shape))
    else:
        out = res
    obs['sim'] = np.round(np.asarray(out, dtype=float), 7).tolist()
    return obs


def compare(got, exp):
    diffs = []
    for k in exp:
        if k in ('sim', 'sens'):
            a, b = np.asarray(got.get(k), dtype=float), np.asarray(exp[k], dtype=float)
            if a.shape != b.shape or not np.allclose(a, b, rtol=1e-6, atol=1e-6):
                diffs.append(k)
        elif got.get(k) != exp[k]:
            diffs.append(k)
    return diffs


def valid_cfg(fam, c):
    """net configurations a fresh model cannot be given are outside the property (e.g. renaming an
    output that is not selected)"""
    F = FAMILIES[fam]
    if c['oren']:
        outs = F['outs'][c['outs']]
        if outs is not None and F['oren'][0] not in outs:
            return False
    return True


def features(c, op):
    f = ['op_' + op['op']]
    if op['op'] == 'adm' and c['reg']:
        f.append('readministration_with_regimen')
    if op['op'] == 'adm' and c['admin'] == 'indirect' and op['arg'] == 'direct':
        f.append('direct_after_indirect')
    if op['op'] == 'adm' and (c['pren'] or c['oren']):
        f.append('administration_after_rename')
    if c['sens']:
        f.append('sens_on')
    return f


def replay_transition(arg):
    rec, fam, seed = arg
    fails, cnt = [], {'cases': 1}
    src, op, dst = rec['src'][0], rec['op'], rec['dst'][0]
    feats = features(src, op)
    for f in feats:
        cnt['feat_' + f] = 1

    def fail(clause, manifestation, detail):
        fails.append(dict(case=dict(config=rec, family=fam), clause=clause, manifestation=manifestation,
                          detail=detail, features=feats))
    if not valid_cfg(fam, src) or not valid_cfg(fam, dst):
        cnt['skipped_invalid_cfg'] = 1
        return fails, cnt
    if op['op'] == 'oren' and FAMILIES[fam]['outs'][src['outs']] is not None \
            and FAMILIES[fam]['oren'][0] not in FAMILIES[fam]['outs'][src['outs']]:
        cnt['skipped_invalid_cfg'] = 1
        return fails, cnt
    try:
        model = canonical(fam, src)
        before = observe(model, fam)
    except Exception as e:
        fail('Canonical', type(e).__name__, repr(e))
        return fails, cnt
    raised = None
    try:
        apply_op(model, fam, op['op'], op['arg'])
    except (ValueError, Rejected) as e:
        raised = e
    except Accepted:
        cnt['invalid_calls_accepted'] = 1
        return fails, cnt
    except Exception as e:
        fail('HistoryIndependence', type(e).__name__, dict(error=repr(e)))
        return fails, cnt
    expect_raise = (op['op'] == 'reg' and src['admin'] == 'none') or (op['op'] == 'bad' and raised is not None)
    if expect_raise != (raised is not None):
        fail('Effect', 'raise', dict(expected=expect_raise, raised=repr(raised)))
        return fails, cnt
    try:
        got = observe(model, fam)
        exp = observe(canonical(fam, dst), fam)
        cnt['evaluations'] = 2
    except Exception as e:
        fail('HistoryIndependence', type(e).__name__, dict(error=repr(e)))
        return fails, cnt
    d = compare(got, exp)
    if d:
        fail('HistoryIndependence', '+'.join(d), dict(got={k: got.get(k) for k in d}, expected={k: exp[k] for k in d}))
    # the regimen the model reports is the one its simulation applied
    runs = [e for e in refsim.EVENTS[-6:] if e['e'] == 'Run']
    return fails, cnt


def replay_walk(arg):
    """A behaviour (sequence of public calls on up to two instances) against canonical fresh models."""
    walk, fam, seed = arg
    fails, cnt = [], {'walks': 1}
    feats = ['walk']

    def fail(clause, manifestation, detail, step):
        fails.append(dict(case=dict(walk=walk[:step + 1], family=fam), clause=clause, manifestation=manifestation,
                          detail=detail, features=feats + features(walk[step]['src'][walk[step]['op']['m'] - 1], walk[step]['op'])
                          if walk[step]['op']['op'] != 'copy' else feats + ['op_copy']))
    F = FAMILIES[fam]
    inst = {1: chi.PKPDModel(F['path']())}
    for step, rec in enumerate(walk):
        op = rec['op']
        m = op['m']
        dst = rec['dst']
        if any(c['ex'] and not valid_cfg(fam, c) for c in dst):
            cnt['walks_cut_invalid_cfg'] = 1
            break
        if op['op'] == 'oren':
            cur = rec['src'][m - 1]
            if F['outs'][cur['outs']] is not None and F['oren'][0] not in F['outs'][cur['outs']]:
                cnt['walks_cut_invalid_cfg'] = 1
                break
        try:
            if op['op'] == 'copy':
                inst[op['arg']] = inst[m].copy()
            else:
                try:
                    apply_op(inst[m], fam, op['op'], op['arg'])
                except Accepted:
                    cnt['invalid_calls_accepted'] = cnt.get('invalid_calls_accepted', 0) + 1
                    break
                except Rejected:
                    cnt['rejected_calls'] = cnt.get('rejected_calls', 0) + 1
                except ValueError:
                    if not (op['op'] == 'reg' and rec['src'][m - 1]['admin'] == 'none'):
                        raise
            cnt['steps'] = cnt.get('steps', 0) + 1
            for q, c in enumerate(dst):
                if not c['ex']:
                    continue
                got = observe(inst[q + 1], fam)
                exp = observe(canonical(fam, c), fam)
                d = compare(got, exp)
                if d:
                    fail('HistoryIndependence' if q + 1 == m or op['op'] == 'copy' else 'NoSharing', '+'.join(d),
                         dict(instance=q + 1, got={k: got.get(k) for k in d}, expected={k: exp[k] for k in d}), step)
                    return fails, cnt
        except Exception as e:
            fail('HistoryIndependence', type(e).__name__, dict(error=repr(e)), step)
            return fails, cnt
    return fails, cnt
