"""Running TLC and getting behaviours out of it.

* ``run(module, cfg, ...)`` model-checks ``spec/<module>.tla`` with ``spec/<cfg>`` in a private
  metadir under .work and returns a ``TLCResult``: TLC's own state counts, the verdict, the JSON
  records the specification printed (``PrintT("@@" \\o ToJson(...))``, one line each) and, if asked
  for, per-action coverage.
* ``simulate(...)`` does the same in ``-simulate`` mode (behaviours beyond the exhaustive bound).
* ``sany(module)`` parses a module.

A TLC crash, a parse error or an unexpected deadlock raises ``MachineryError``; an invariant or
property violation *of the specification itself* is reported in ``TLCResult.violated``.
"""
import json
import os
import re
import shutil
import subprocess
import time

from .common import SPEC, WORK, MachineryError

JAR = '/opt/veriftools/tla/tla2tools.jar:/opt/veriftools/tla/CommunityModules-deps.jar'
MARK = '"@@'

_STATS = re.compile(r'^(\d+) states generated, (\d+) distinct states found, (\d+) states left on queue')
_COV = re.compile(r'^<(\w+) line (\d+), col \d+ to line \d+, col \d+ of module (\w+)>: (\d+):(\d+)')
_DEPTH = re.compile(r'The depth of the complete state graph search is (\d+)')


class TLCResult(object):
    def __init__(self):
        self.generated = 0
        self.distinct = 0
        self.queue = 0
        self.depth = 0
        self.records = []
        self.violated = None      # name of a violated invariant / property of the spec itself
        self.errors = []
        self.coverage = {}        # action name -> [distinct, generated]
        self.wall = 0.0
        self.cmd = ''
        self.finished = False
        self.stdout_tail = ''
        self.returncode = None

    def ok(self):
        return self.finished and self.violated is None and not self.errors

    def summary(self):
        return dict(states=self.distinct, transitions=self.generated, depth=self.depth,
                    finished=self.finished, violated=self.violated, wall_s=round(self.wall, 2),
                    coverage=self.coverage, cmd=self.cmd)


def _decode(line):
    """A PrintT line is a TLA+ string literal: "@@{\\"a\\":1}"."""
    try:
        s = json.loads(line)
    except ValueError:
        # TLC escapes only \" and \\ ; fall back to manual unescape
        s = line[1:-1].replace('\\"', '"').replace('\\\\', '\\')
    return json.loads(s[2:])


def _java_cmd(extra_jvm=()):
    return ['java', '-XX:+UseParallelGC', '-Xss16m'] + list(extra_jvm) + ['-cp', JAR, 'tlc2.TLC']


def run(module, cfg, workers=16, coverage=False, timeout=3600, env=None, extra=(), jvm=(),
        tag=None, want_records=True, allow_violation=False, record_filter=None, cwd=None):
    """Model-check spec/<module>.tla with config spec/<cfg>."""
    os.makedirs(WORK, exist_ok=True)
    tag = tag or ('%s-%s-%d' % (module, os.path.splitext(os.path.basename(cfg))[0], os.getpid()))
    meta = os.path.join(WORK, 'tlc-' + tag)
    shutil.rmtree(meta, ignore_errors=True)
    os.makedirs(meta)
    cfgpath = cfg if os.path.isabs(cfg) else os.path.join(cwd or SPEC, cfg)
    cmd = _java_cmd(jvm) + ['-workers', str(workers), '-metadir', meta, '-noGenerateSpecTE',
                            '-config', cfgpath]
    if coverage:
        cmd += ['-coverage', '1']
    cmd += list(extra) + [module + '.tla']
    res = TLCResult()
    res.cmd = ' '.join(cmd[cmd.index('tlc2.TLC'):])
    t0 = time.time()
    e = dict(os.environ)
    if env:
        e.update(env)
    proc = subprocess.Popen(cmd, cwd=cwd or SPEC, stdout=subprocess.PIPE, stderr=subprocess.STDOUT,
                            env=e, text=True, errors='replace')
    tail = []
    try:
        for line in _iter_lines(proc, timeout):
            line = line.rstrip('\n')
            if line.startswith(MARK):
                if want_records:
                    try:
                        rec = _decode(line)
                    except ValueError:
                        res.errors.append('undecodable record: ' + line[:200])
                        continue
                    if record_filter is None or record_filter(rec):
                        res.records.append(rec)
                continue
            tail.append(line)
            if len(tail) > 400:
                del tail[:200]
            m = _STATS.match(line)
            if m:
                res.generated, res.distinct, res.queue = map(int, m.groups())
                continue
            m = _DEPTH.search(line)
            if m:
                res.depth = int(m.group(1))
                continue
            m = _COV.match(line)
            if m:
                name = m.group(1)
                d, g = int(m.group(5)), int(m.group(4))
                # TLC prints "<Action ...>: distinct:generated"
                res.coverage[name] = [int(m.group(4)), int(m.group(5))]
                continue
            if line.startswith('Error:'):
                mm = re.search(r'Invariant (\w+) is violated', line)
                if mm:
                    res.violated = mm.group(1)
                elif 'Action property' in line or 'Temporal properties were violated' in line \
                        or 'is violated' in line:
                    mm = re.search(r'property (\w+)', line)
                    res.violated = mm.group(1) if mm else line
                elif 'Deadlock reached' in line:
                    res.errors.append('deadlock')
                elif 'The behavior up to this point is' in line or 'The following behavior' in line:
                    pass
                else:
                    res.errors.append(line)
            if 'Model checking completed' in line or 'Finished in' in line:
                res.finished = True
    finally:
        if proc.poll() is None:
            proc.kill()
        proc.wait()
        shutil.rmtree(meta, ignore_errors=True)
    res.returncode = proc.returncode
    res.wall = time.time() - t0
    res.stdout_tail = '\n'.join(tail[-120:])
    if res.violated is not None and not allow_violation:
        raise SpecViolation(res)
    if (res.errors or not res.finished) and res.violated is None:
        raise MachineryError('TLC failed on %s/%s: %s\n%s' % (
            module, cfg, res.errors[:3], res.stdout_tail[-3000:]))
    return res


class SpecViolation(Exception):
    """TLC found a counterexample to a property of the *specification* (a design-level failure)."""

    def __init__(self, res):
        Exception.__init__(self, 'specification violates %s\n%s' % (res.violated, res.stdout_tail[-3000:]))
        self.res = res


def _iter_lines(proc, timeout):
    import threading
    timer = threading.Timer(timeout, proc.kill)
    timer.start()
    try:
        for line in proc.stdout:
            yield line
    finally:
        timer.cancel()


def simulate(module, cfg, num, depth, seed=0, workers=1, timeout=1800, extra=(), **kw):
    return run(module, cfg, workers=workers, timeout=timeout,
               extra=['-simulate', 'num=%d' % num, '-depth', str(depth), '-seed', str(seed)] + list(extra),
               **kw)


def sany(module):
    p = subprocess.run(['java', '-cp', JAR, 'tla2sany.SANY', module + '.tla'], cwd=SPEC,
                       stdout=subprocess.PIPE, stderr=subprocess.STDOUT, text=True)
    ok = p.returncode == 0 and 'Semantic errors' not in p.stdout and 'Parse Error' not in p.stdout \
        and '*** Errors' not in p.stdout and 'Fatal errors' not in p.stdout
    return ok, p.stdout


def write_cfg(name, text):
    """Writes a generated cfg under .work (used for batches with literal constants)."""
    os.makedirs(WORK, exist_ok=True)
    path = os.path.join(WORK, name)
    with open(path, 'w') as f:
        f.write(text)
    return path
