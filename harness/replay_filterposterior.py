"""spec -> code for module FilterPosterior (C13): every composition x (sigma fixed / free) x
(n_obs, n_times, n_samples) TLC enumerates is built as a real chi.PopulationFilterLogPosterior
(ProbeMech, real population models and filters, unsorted unique times); names, IDs and counts are
compared literally, the value with the documented sum up to ONE constant per configuration (three
parameter vectors), the gradient exactly (complex step through the documented value)."""
import itertools
import warnings

import numpy as np

from . import interp, probes
from .common import scribble, digest
from .replay_poplayout import build_leaf, draw_values, Reference, features as pl_features
from .replay_filters import reference as filter_reference

chi = probes.chi
import pints  # noqa: E402


def features(rec):
    f = pl_features(dict(rec, nids=rec['nsamples'], fixed=[], nbottom=1))
    subs = rec['subs']
    if all(m['kind'] == 'H' for m in subs) and len(subs) > 1:
        f.append('several_heterogeneous_only')
    if all(m['kind'] in ('P', 'H') for m in subs) and rec['sigmafree']:
        f.append('all_special_free_sigma')
    if rec['hidden_special']:
        f.append('cov_wrapped_special')
    return f


def replay_case(arg):
    rec, seed = arg
    fails, cnt = [], {'cases': 1}
    if rec['nsamples'] < 2:
        cnt['skipped_single_simulated_individual'] = 1
        return fails, cnt
    key = digest(rec)
    rng = np.random.default_rng([seed, int(key, 16) % (2 ** 31)])
    feats = features(rec)
    for f in feats:
        cnt['feat_' + f] = 1

    def fail(clause, manifestation, detail):
        fails.append(dict(case=dict(config=rec), clause=clause, manifestation=manifestation, detail=detail, features=feats))
    ns, nobs, nt, ndim = rec['nsamples'], rec['nobs'], rec['ntimes'], rec['ndim']
    log_scale = bool(rng.integers(2))
    fkind = ['GaussianFilter', 'LogNormalFilter'][int(rng.integers(2))] if log_scale else \
        ['GaussianFilter', 'GaussianKDEFilter'][int(rng.integers(2))]
    # unsorted, unique times: the permutation is chosen by content, so that all n_times! input orders (3-cycles included,
    # which are not their own inverse) occur over the enumeration
    perms = list(itertools.permutations(range(nt)))
    perm = np.array(perms[int(key, 16) % len(perms)])
    times = np.round(0.4 + 0.7 * np.arange(nt), 2)[perm]
    data = np.round(rng.uniform(1.0, 6.0, size=(3, nobs, nt)), 3)
    # ragged measurements: some individuals are not measured in some (observable, time) cells (NaN padding)
    if (int(key, 16) // 3) % 2 == 0:
        for _ in range(1 + int(rng.integers(2))):
            i_, r_, j_ = int(rng.integers(3)), int(rng.integers(nobs)), int(rng.integers(nt))
            if np.sum(~np.isnan(data[:, r_, j_])) > 1:
                data[i_, r_, j_] = np.nan
        if np.isnan(data).any():
            feats.append('missing_measurements')
            cnt['feat_missing_measurements'] = 1
    order = np.argsort(times)
    if list(perm) != sorted(perm):
        feats.append('unsorted_times')
        cnt['feat_unsorted_times'] = 1
    if list(np.argsort(perm)) != list(perm):
        feats.append('order_not_involution')
        cnt['feat_order_not_involution'] = 1
    # a filter composed over the time points (first m times / the rest), possibly of two kinds
    split = 0
    if nt >= 2 and (int(key, 16) // 7) % 2 == 0:
        split = 1 + (int(key, 16) // 14) % (nt - 1)
        allowed = ['GaussianFilter', 'LogNormalFilter'] if log_scale else ['GaussianFilter', 'GaussianKDEFilter']
        fkind2 = allowed[int(rng.integers(2))]
        feats.append('composed_filter')
        cnt['feat_composed_filter'] = 1
    leaves = [build_leaf(m) for m in rec['subs']]
    pop = leaves[0] if (len(leaves) == 1 and rng.integers(2) == 0) else chi.ComposedPopulationModel(leaves)
    covs = np.round(rng.uniform(0.0, 1.0, size=(ns, max(rec['ncov'], 1))), 2)[:, :rec['ncov']]
    sig_fixed = None if rec['sigmafree'] else [round(float(rng.uniform(0.2, 0.5)), 3) for _ in range(nobs)]
    mech = probes.ProbeMech(ndim, nobs, tag='fp' + key)
    pri = [pints.GaussianLogPrior(1.0 + 0.05 * k, 1.5) for k in range(rec['ntop'])]
    prior = pints.ComposedLogPrior(*pri) if len(pri) > 1 else pri[0]
    try:
        with warnings.catch_warnings():
            warnings.simplefilter('error', RuntimeWarning)
            if split and nt == 3 and (int(key, 16) // 28) % 2 == 0:
                # the user's composed filter was built on the columns in another order and brought into the order of the data
                # with sort_times BEFORE it is handed over (a 3-cycle, which does not commute with the transpositions among the
                # time orders): the posterior's own sorting is composed with that order
                fkind2 = fkind
                pre = np.array([1, 2, 0])
                d_pre = data[..., np.argsort(pre)]
                filt = chi.ComposedPopulationFilter([getattr(chi, fkind)(d_pre[..., :split].copy()),
                                                     getattr(chi, fkind)(d_pre[..., split:].copy())])
                filt.sort_times(pre)
                feats.append('composed_filter_sorted_before')
                cnt['feat_composed_filter_sorted_before'] = 1
            elif split:
                filt = chi.ComposedPopulationFilter([getattr(chi, fkind)(data[..., :split].copy()),
                                                     getattr(chi, fkind2)(data[..., split:].copy())])
            else:
                filt = getattr(chi, fkind)(data.copy())
            post = chi.PopulationFilterLogPosterior(
                filt, times.copy(), mech, pop, prior, sigma=sig_fixed, error_on_log_scale=log_scale, n_samples=ns,
                covariates=(covs if rec['ncov'] > 0 else None))
    except Exception as e:
        fail('Construct', type(e).__name__, repr(e))
        return fails, cnt
    # ---- inference I/O (C18): a coded raw chain formatted by the sampling controller -- the entry of position k is found under
    # the name and the individual the specification gives to position k (FilterPosterior!Names / Ids), every entry once
    try:
        with warnings.catch_warnings():
            warnings.simplefilter('ignore')
            # (the controller draws initial points when it is built: a twin posterior whose prior has its mass inside the
            # support of every scale parameter)
            from .replay_inferenceio import make_prior
            post_io = chi.PopulationFilterLogPosterior(
                filt, times.copy(), mech, pop, make_prior(rec['names'][:rec['ntop']]), sigma=sig_fixed,
                error_on_log_scale=log_scale, n_samples=ns, covariates=(covs if rec['ncov'] > 0 else None))
            sctrl = chi.SamplingController(post_io, seed=3)
            nall = rec['nparams']
            raw = np.zeros((2, 3, nall))
            for c_ in range(2):
                for d_ in range(3):
                    raw[c_, d_, :] = 10000 * (c_ + 1) + 1000 * (d_ + 1) + np.arange(1, nall + 1)
            ds = sctrl._format_chains(raw.copy(), None)
        cnt['chains_formatted'] = 1
        total = sum(int(ds[v_].size) for v_ in ds.data_vars)
        if total != raw.size:
            fail('IO_ExactlyOnce', 'number_of_entries', dict(got=total, expected=int(raw.size)))
        for k_, (nm_, id_) in enumerate(zip(rec['names'], rec['ids'])):
            if nm_ not in ds.data_vars:
                fail('IO_ExactlyOnce', 'missing_variable', dict(name=nm_, variables=list(ds.data_vars)[:8]))
                break
            arr = ds[nm_]
            if id_ != 'None':
                if 'individual' not in arr.dims or id_ not in [str(x_) for x_ in arr.individual.values]:
                    fail('IO_ExactlyOnce', 'individual_coordinates', dict(name=nm_, id=id_))
                    break
                got_ = arr.sel(individual=id_).transpose('chain', 'draw').values
            else:
                got_ = arr.transpose('chain', 'draw').values
            if got_.shape != (2, 3) or not np.array_equal(got_, raw[:, :, k_]):
                fail('IO_ExactlyOnce', 'cells', dict(position=k_ + 1, name=nm_, id=id_,
                                                     holds_position=(int(np.ravel(got_)[0]) % 1000 if np.size(got_) else None)))
                break
    except Exception as e:
        fail('IO_ExactlyOnce', type(e).__name__, repr(e))
    # ---- names, IDs, counts ---------------------------------------------------------------
    try:
        scribble(post)
        ids = [('None' if i is None else i) for i in post.get_id()]
        obs = dict(n_parameters=int(post.n_parameters()), n_top=int(post.n_parameters(exclude_bottom_level=True)),
                   names=list(post.get_parameter_names()), ids=ids,
                   top_names=list(post.get_parameter_names(exclude_bottom_level=True)))
        exp = dict(n_parameters=rec['nparams'], n_top=rec['ntop'], names=rec['names'], ids=rec['ids'],
                   top_names=rec['names'][:rec['ntop']])
        for k_ in exp:
            if obs[k_] != exp[k_]:
                fail('NamesIds' if k_ in ('names', 'ids', 'top_names') else 'FP_Counts', k_, dict(got=obs[k_], expected=exp[k_]))
        wid = post.get_parameter_names(include_ids=True)
        if list(wid) != [(i + ' ' + n) if i != 'None' else n for i, n in zip(rec['ids'], rec['names'])]:
            fail('NamesIds', 'names_with_ids', dict(got=wid))
    except Exception as e:
        fail('NamesIds', type(e).__name__, repr(e))
    if fails:
        return fails, cnt
    # ---- value up to one constant, gradient exactly -------------------------------------------
    shim = dict(subs=rec['subs'], nids=ns, ndim=ndim, layout=rec['layout'])
    poprefs = Reference(shim, [None] * ns, covs, {})
    kinds_in = [fkind] * nt if not split else [fkind] * split + [fkind2] * (nt - split)
    fref = filter_reference([kinds_in[j] for j in order], data[..., order])
    st = np.sort(times)
    pos = {tuple(s): k for k, s in enumerate(rec['layout'])}

    def ref(x):
        psi, popd = poprefs.psi_and_pop(x)
        tot = popd
        for k in range(rec['ntop']):
            tot = tot + interp.gauss(x[k], 1.0 + 0.05 * k, 1.5)
        ysim = np.zeros((ns, nobs, nt), dtype=complex)
        for s in range(ns):
            p = np.array(psi[s], dtype=complex)
            for r in range(nobs):
                pred = probes.probe_output(r, st, p)
                sg = x[pos[('sigma', r + 1, 0, 0)]] if rec['sigmafree'] else sig_fixed[r]
                for t in range(nt):
                    e = x[pos[('eps', s + 1, r + 1, t + 1)]]
                    tot = tot + interp.std_normal(e)
                    ysim[s, r, t] = pred[t] * np.exp(sg * e) if log_scale else pred[t] + sg * e
        return tot + fref(ysim)
    diffs = []
    vscale = 1.0
    for trial in range(3):
        shim2 = dict(subs=rec['subs'], layout=[s for s in rec['layout'] if s[0] in ('theta', 'beta', 'eta')],
                     topfull=[s for s in rec['layout'] if s[0] in ('theta', 'beta')])
        vals = draw_values(shim2, rng)
        x = np.zeros(rec['nparams'])
        for k, s in enumerate(rec['layout']):
            if s[0] in ('theta', 'beta', 'eta'):
                x[k] = vals[tuple(s)]
            elif s[0] == 'sigma':
                x[k] = round(float(rng.uniform(0.2, 0.5)), 3)
            else:
                x[k] = round(float(rng.uniform(-1.0, 1.0)), 3)
        exp_v = float(np.real(ref(x.astype(complex))))
        x_in = x.copy()
        try:
            with warnings.catch_warnings():
                warnings.simplefilter('error', RuntimeWarning)
                v = post(x_in)
        except Exception as e:
            fail('Evaluable', type(e).__name__, dict(error=repr(e)))
            return fails, cnt
        if not np.isfinite(v) or not np.isfinite(exp_v):
            fail('Denotation', 'class', dict(got=float(v), expected=exp_v))
            return fails, cnt
        diffs.append(float(v) - exp_v)
        vscale = max(vscale, abs(float(v)), float(np.max(np.abs(x))) ** 2)
        cnt['evaluations'] = cnt.get('evaluations', 0) + 1
        if trial == 0:
            exp_g = interp.grad(ref, x)
            try:
                with warnings.catch_warnings():
                    warnings.simplefilter('error', RuntimeWarning)
                    sc, g = post.evaluateS1(x_in)
                    v2 = post(x_in)
            except Exception as e:
                fail('EvaluableS1', type(e).__name__, dict(error=repr(e)))
                return fails, cnt
            kept_grad = (g, np.array(g, dtype=float, copy=True), x.copy())       # results are values: looked at again at the end
            g = np.asarray(g, dtype=float)
            if not interp.close(sc, v) or not interp.close(v2, v):
                fail('GradSlotOK', 'score', dict(s1=float(sc), call=float(v), call_after=float(v2)))
            if g.shape != exp_g.shape:
                fail('FP_Counts', 'gradient_length', dict(got=list(g.shape), expected=list(exp_g.shape)))
            # (tolerance relative to the LARGEST entry as well: near a degenerate filter variance some entries reach 1e14 and the
            # smaller ones of the same gradient carry the rounding of the large terms they are differences of)
            elif not interp.close(g, exp_g, rtol=1e-6, atol=1e-6 + 1e-9 * float(np.max(np.abs(exp_g)))):
                atol_g = 1e-6 + 1e-9 * float(np.max(np.abs(exp_g)))
                bad = [rec['names'][k] for k in range(len(g)) if not interp.close(g[k], exp_g[k], rtol=1e-6, atol=atol_g)]
                fail('GradSlotOK', 'gradient', dict(positions=bad[:6], got=g.tolist(), expected=exp_g.tolist()))
        if not np.array_equal(x_in, x):
            fail('NoInputWrite', 'parameters_modified', None)
    # ---- the gradient handed out at the first point is still the gradient at the first point after the posterior has been
    # evaluated (with sensitivities) at another one
    if not fails:
        try:
            with warnings.catch_warnings():
                warnings.simplefilter('ignore')
                post.evaluateS1(x.copy())                # (x is now the vector of the LAST trial)
            if not np.array_equal(np.asarray(kept_grad[0], dtype=float), kept_grad[1]):
                fail('GradSlotOK', 'earlier_gradient_changed_by_a_later_evaluation', dict(at=kept_grad[2].tolist()))
        except Exception as e:
            fail('EvaluableS1', type(e).__name__, dict(error=repr(e)))
    # ---- representation: a whole-number point handed over as an INTEGER array (or a list of ints) scores like the same point
    # as floats, value and gradient
    if not fails:
        xi = np.array([(1 + (k_ % 2)) if rec['layout'][k_][0] not in ('beta', 'eps') else (k_ % 2) for k_ in range(rec['nparams'])],
                      dtype=int)
        try:
            with warnings.catch_warnings():
                warnings.simplefilter('ignore')
                vf, vi, vl = float(post(xi.astype(float))), float(post(xi.copy())), float(post([int(q) for q in xi]))
                sf, gf = post.evaluateS1(xi.astype(float))
                si, gi = post.evaluateS1(xi.copy())
            cnt['evaluations'] = cnt.get('evaluations', 0) + 5
            cnt['integer_vector_twins'] = 1
            fin = np.isfinite(vf)
            if not (np.isfinite(vi) == fin and np.isfinite(vl) == fin and (not fin or (interp.close(vf, vi) and interp.close(vf, vl)
                                                                                        and interp.close(float(sf), float(si))))):
                fail('Denotation', 'integer_vector_scores_differently', dict(float=vf, int=vi, list=vl, x=xi.tolist()))
            elif fin and not interp.close(np.asarray(gf, dtype=float), np.asarray(gi, dtype=float), rtol=1e-9, atol=1e-9):
                fail('GradSlotOK', 'integer_vector_gradient', dict(x=xi.tolist()))
        except Exception as e:
            fail('Evaluable', type(e).__name__, dict(op='integer vector', error=repr(e)))
    # ---- the user's filter object is not consumed: a second posterior built from the SAME filter object (and the same
    # unsorted times) scores like the first, and the first is unaffected by the construction of the second
    if not fails:
        try:
            with warnings.catch_warnings():
                warnings.simplefilter('error', RuntimeWarning)
                v_first = float(post(x.copy()))
                post2 = chi.PopulationFilterLogPosterior(
                    filt, times.copy(), mech, pop, prior, sigma=sig_fixed, error_on_log_scale=log_scale, n_samples=ns,
                    covariates=(covs if rec['ncov'] > 0 else None))
                v_second, v_again = float(post2(x.copy())), float(post(x.copy()))
            cnt['evaluations'] = cnt.get('evaluations', 0) + 3
            if not (interp.close(v_second, v_first) and interp.close(v_again, v_first)):
                fail('FilterReuse', 'second_posterior_from_same_filter', dict(first=v_first, second=v_second, first_again=v_again))
        except Exception as e:
            fail('FilterReuse', type(e).__name__, repr(e))
    if max(diffs) - min(diffs) > 1e-9 * vscale:
        fail('Denotation', 'value_up_to_constant', dict(differences=diffs, filter=kinds_in, log_scale=log_scale))
    return fails, cnt
