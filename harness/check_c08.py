"""C08 -- fixing parameters is exact substitution, reversible and order-independent (module FixParams)."""
import json

from . import tlc
from .cache import cached
from .common import MachineryError, digest
from .verdict import Verdict, pmap

PROP = 'C08'
ASSUME = [
    'oracle: the UNFIXED object of the same class evaluated at the substituted full vector (exact comparison, rtol 1e-10); '
    'correctness of the unfixed objects is the business of C01-C07, C09',
    'object classes: ReducedErrorModel x 4, ReducedMechanisticModel over ProbeMech and over a dosed PKPDModel on RefSim '
    '(sensitivities on/off, copy), ReducedPopulationModel over a 2-dim Gaussian, a composed and a covariate model, '
    'LogLikelihood, PredictiveModel; the problem controller is exercised in C14',
    'three fixable names per class (fewer where the class has fewer parameters: the remaining keys are foreign keys), '
    'two values per name; a foreign key is offered in the dictionaries as well',
]


def _compute(tier, seed):
    r = tlc.run('MC_FixParams', 'FixParams_quick.cfg')
    runs = [r.summary()]
    # spec-level negative controls: two plausible designs of fix_parameters are refuted by TLC
    for cfg, want in (('FixParams_freshmask.cfg', ('MaskIsDomain', 'OrderIndependent', 'BufferHoldsValues')),
                      ('FixParams_nocollapse.cfg', ('Wrapped',))):
        try:
            tlc.run('MC_FixParams', cfg, want_records=False)
            raise MachineryError('negative control failed: %s not refuted' % cfg)
        except tlc.SpecViolation as e:
            if e.res.violated not in want:
                raise MachineryError('%s refuted on %s' % (cfg, e.res.violated))
    if tier == 'thorough':
        runs.append(tlc.run('MC_FixParams', 'FixParams_thorough.cfg', want_records=False).summary())
    recs = r.records
    if tier == 'quick':
        recs = [x for x in recs if x['d']['z'] == 'Absent' or int(digest(x), 16) % 8 == seed % 8]
    from . import replay_fixparams
    ads = replay_fixparams.adapters()
    na = len(ads)
    # the controller builds a fresh set of likelihoods for every posterior: in the quick tier its adapters replay a
    # third of the transitions (chosen by content, rotating with the seed)
    slow = {ai for ai, a in enumerate(ads) if getattr(a, 'slow', False)}
    results = pmap(replay_fixparams.replay_case,
                   [(rec, ai, seed) for rec in recs for ai in range(na)
                    if not (tier == 'quick' and ai in slow and int(digest([rec, ai]), 16) % 3 != seed % 3)])
    return dict(runs=runs, n=len(recs), na=na, results=results, samples=recs[5:7] + recs[-1:],
                classes=[a.name for a in replay_fixparams.adapters()])


def run(tier, seed):
    v = Verdict(PROP, tier, seed)
    out = cached('fixparams', tier, seed, lambda: _compute(tier, seed))
    for fails, cnt in out['results']:
        v.failures(fails)
        v.merge_counters(cnt)
    for s in out['samples']:
        v.sample(s)
    nt = v.counters.get('feat_release', 0) + v.counters.get('feat_refix', 0)
    if nt == 0 or v.counters.get('long_histories', 0) == 0:
        v.vacuous('vacuous run')
    cov = dict(states=sum(r['states'] for r in out['runs']), transitions=sum(r['transitions'] for r in out['runs']),
               traces_validated_against_impl=out['n'] * out['na'], evaluations=v.counters.get('evaluations', 0),
               distinct_nontrivial=nt, exhaustive=(tier == 'thorough'),
               rule='every transition (source map, dictionary) of the 27-state fix/re-fix/release graph x %d object classes; '
                    'source reached by the shortest or by a longer seeded history; quick replays the transitions without '
                    'the foreign key plus a seeded eighth of the rest; non-trivial = the dictionary releases or re-fixes a '
                    'parameter' % out['na'],
               classes=out['classes'], tlc_runs=out['runs'],
               spec_negative_control='FixParams_freshmask.cfg (every call starts from an empty mask) refuted on the "mask = domain" invariants; '
                                     'FixParams_nocollapse.cfg (wrapper kept after the last release) refuted on Wrapped')
    return v.finish('model_checking', cov, ASSUME)


def replay(path):
    from . import replay_fixparams
    rep = json.load(open(path))
    fails, _ = replay_fixparams.replay_case((rep['case']['config'], rep['case']['adapter'], rep['seed']))
    for f in fails:
        print('VIOLATION property=%s replay=%s' % (PROP, path))
        print('  clause=%s manifestation=%s detail=%s' % (f['clause'], f['manifestation'], str(f['detail'])[:400]))
        return 1
    print('replay passes')
    return 0
