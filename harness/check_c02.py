"""C02 via module PopLayout (see harness/poplayout_check.py, harness/replay_poplayout.py)."""
from . import poplayout_check

PROP = 'C02'
RULES = {
    'C02': ('TLC enumerates every sequence of sub-model descriptors (kind x dims x centred x covariates) x nIds x fixed '
            'subsets within the constants and checks position<->slot bijection, counts, names/IDs and the transcribed '
            'index arithmetic; each composition is built in chi and its hierarchical score compared with the documented '
            'sum read through the Layout. Non-trivial = >=2 sub-models or a pooled/heterogeneous/covariate/non-centred/'
            'fixed dimension'),
    'C03': ('same enumeration; evaluateS1 score and gradient of every composition compared with the exact derivative of '
            'the documented log-likelihood, position by position in the published order; value re-evaluated after S1. '
            'Non-trivial as for C02'),
    'C17': ('same enumeration; n_parameters (both flavours), names (all flag combinations), IDs, n_hierarchical_parameters, '
            'special-dimension table and gradient length compared with each other and with the specification. '
            'Non-trivial as for C02'),
}


def run(tier, seed):
    return poplayout_check.run(PROP, tier, seed, [], RULES[PROP])


def replay(path):
    return poplayout_check.replay(PROP, path)
