"""C07 -- covariate models shift the selected population parameters linearly (module CovSel)."""
import json

from . import tlc
from .cache import cached
from .common import MachineryError
from .verdict import Verdict, pmap

PROP = 'C07'
ASSUME = [
    'integers (selection, vartheta, transpose) are compared exactly with the specification',
    'the covariate population model is compared with the underlying leaf model evaluated per individual at the '
    "specification's vartheta (differential oracle; leaf correctness is C05's job), tolerance 1e-9",
    'underlying models: Gaussian / log-normal (centred and not), truncated Gaussian, pooled',
]


def _compute(tier, seed):
    r = tlc.run('CovSel', 'CovSel_%s.cfg' % tier)
    from . import replay_covsel
    results = pmap(replay_covsel.replay_case, [(rec, seed) for rec in r.records])
    return dict(run=r.summary(), records=r.records, results=results)


def run(tier, seed):
    v = Verdict(PROP, tier, seed)
    out = cached('covsel', tier, seed, lambda: _compute(tier, seed))
    for fails, cnt in out['results']:
        v.failures(fails)
        v.merge_counters(cnt)
    recs = out['records']
    for rec in recs[:1] + recs[-1:]:
        v.sample({k: rec[k] for k in ('nper', 'ndim', 'ncov', 'nids', 'sel', 'normsel', 'vartheta', 'dbeta', 'betaslots')})
    nt = v.counters.get('feat_unsorted_or_duplicate_selection', 0)
    if nt == 0 or v.counters.get('feat_duplicates', 0) == 0:
        v.vacuous('vacuous run: no unsorted / duplicated selection')
    cov = dict(states=out['run']['states'], transitions=out['run']['transitions'],
               traces_validated_against_impl=len(recs), evaluations=v.counters.get('evaluations', 0),
               distinct_nontrivial=nt, exhaustive=True,
               rule='TLC enumerates NPer x nDim x nCov x nIds x every selection list (any order, with duplicates) up to '
                    'MaxSel; non-trivial = the selection as given differs from its normal form',
               tlc_runs=[out['run']])
    return v.finish('model_checking', cov, ASSUME)


def replay(path):
    from . import replay_covsel
    rep = json.load(open(path))
    fails, _ = replay_covsel.replay_case((rep['case']['config'], rep['seed']))
    v = Verdict(PROP, 'quick', rep['seed'])
    for f in [f for f in fails if v.failure(f)]:
        print('VIOLATION property=%s replay=%s' % (PROP, path))
        print('  clause=%s manifestation=%s detail=%s' % (f['clause'], f['manifestation'], str(f['detail'])[:400]))
        return 1
    print('replay passes')
    return 0
