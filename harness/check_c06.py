"""C06 -- samplers draw from the distribution their log-likelihood scores (module SampleAlgebra)."""
import json

import numpy as np

from .cache import cached
from .common import MachineryError
from .verdict import Verdict

PROP = 'C06'
ASSUME = [
    'NumPy / SciPy primitives (Generator.normal, Generator.lognormal, scipy.stats.truncnorm.rvs) are trusted to sample '
    'the law their arguments describe; scripted generators return loc + scale*z resp. exp(mean + sigma*z)',
    'integer inputs make every coefficient an integer multiple of 1/2; a cell whose numbers are not integral or whose '
    'form leaves the algebra (affine / log-affine in normal atoms, one truncated-normal atom, a constant) is counted as '
    'undecided, never as a violation (any undecided cell makes the check end with exit 2: it could not decide)',
    'claimed laws are the documented densities of the models (Gaussian with sd sigma, sigma_rel*y, sigma_base+sigma_rel*y; '
    'log-normal with mean y; population Gaussian / log-normal / Gaussian truncated at 0 / point mass; non-centred models '
    'after compute_individual_parameters; covariate models conditional on the covariates)',
    'moment helpers are compared numerically with scipy.stats moments of the claimed law',
]


def _design_records():
    """design-level controls of the algebra: sd = 3 + 4*y at y = 1 (units of 1/2)"""
    claim = dict(fam='normal', loc=2, scale=14, lower=0)
    two = dict(name='design:two_draws_added', atoms=[dict(fam='normal', loc=0, scale=0, lower=0)] * 2,
               cells=[dict(form='affine', c0=2, coef=[[1, 6], [2, 8]], claim=claim, group='a')])
    one = dict(name='design:one_draw_scaled', atoms=[dict(fam='normal', loc=0, scale=0, lower=0)],
               cells=[dict(form='affine', c0=2, coef=[[1, 14]], claim=claim, group='a')])
    return [two, one]


def _compute(tier, seed):
    from . import replay_samplealgebra as sa, validate_traces
    rng = np.random.default_rng(seed)
    reps = 1 if tier == 'quick' else 3
    recs = []
    for _ in range(reps):
        recs += [sa.run_error_case(c, rng) for c in sa.error_cases()]
        recs += [sa.run_pop_case(c, rng) for c in sa.pop_cases()]
    recs = _design_records() + recs
    res, verdicts = validate_traces.validate_samples(recs, tag='c06')
    if verdicts[0]['clause'] != 'CellLaw' or verdicts[1]['clause'] != '':
        raise MachineryError('design-level control of the sample algebra failed: %r' % verdicts[:2])
    return dict(run=res.summary(), names=[r['name'] for r in recs], verdicts=verdicts, moments=sa.moment_checks(),
                samples=[recs[2], recs[-1]], ncells=sum(len(r['cells']) for r in recs))


def run(tier, seed):
    v = Verdict(PROP, tier, seed)
    out = cached('samplealgebra', tier, seed, lambda: _compute(tier, seed))
    undecided = 0
    for name, vd in list(zip(out['names'], out['verdicts']))[2:]:
        undecided += vd['undecided']
        if vd['clause']:
            sampler = name.split(' ')[0]
            v.failure(dict(case=dict(sampler=name), clause=vd['clause'], manifestation='law_mismatch',
                           detail=dict(cell=vd['cell'], derived_law=vd['law'], claimed_law=vd['claimed'], units='1/2'),
                           features=['sampler:' + sampler]))
    for clause, man, detail in out['moments']:
        v.failure(dict(case=dict(helper=man), clause=clause, manifestation='moments', detail=detail, features=['moments']))
    for s in out['samples']:
        v.sample(s)
    n = len(out['names']) - 2
    v.counters['cells'] = out['ncells']
    v.counters['undecided_cells'] = undecided
    if undecided:
        # a sampler whose cells leave the algebra cannot be judged: that is a failure of the machinery to decide, not a pass
        raise MachineryError('%d sampler cells could not be identified (form outside the sample algebra)' % undecided)
    cov = dict(states=out['run']['states'], transitions=out['run']['transitions'], traces_validated_against_impl=n,
               evaluations=out['ncells'], distinct_nontrivial=n, exhaustive=False,
               rule='4 error models x parameter points x output vectors x sample sizes, 6 leaf population kinds x n_dim x '
                    'sample sizes, composed / reduced / covariate (centred and not) models: each sampler call identified '
                    'cell by cell under scripted generators and checked by TLC against SampleAlgebra; every call is '
                    'non-trivial (>= 1 stochastic or constant cell with a claim)',
               undecided_cells=undecided,
               design_controls='two independent draws added: refuted (variance 25 vs 49); one draw scaled: accepted')
    return v.finish('model_checking', cov, ASSUME)


def replay(path):
    print('C06 failures are re-validated by re-running the check: ./check C06')
    return run('quick', 0)
