"""pytest plugin: runs repository tests on RefSim with the controller recorder on and writes one
recorded trace per test to $VERIF_TRACE_OUT (the tests' own assertions are irrelevant here; their
call sequences are the input of the trace validation against Trace_CtrlLife)."""
import json
import os
import sys

sys.path.insert(0, os.path.dirname(os.path.dirname(os.path.abspath(__file__))))
from harness import refsim, ctrl_recorder  # noqa: E402

refsim.install()
import chi  # noqa: E402

ctrl_recorder.install(chi)
_traces = []


_state = {'cls': None}


def _flush():
    ev = ctrl_recorder.take()
    if ev and _state['cls'] is not None:
        _traces.append(dict(name=_state['cls'], trace=ev))


def pytest_runtest_protocol(item, nextitem):
    # one trace per test class: class-level fixtures (setUpClass) build controllers that the tests then share
    cls = '%s::%s' % (item.module.__name__, item.cls.__name__ if item.cls else '-')
    if cls != _state['cls']:
        _flush()
        _state['cls'] = cls
    return None


def pytest_sessionfinish(session, exitstatus):
    _flush()
    out = os.environ.get('VERIF_TRACE_OUT')
    if out:
        with open(out, 'w') as f:
            json.dump(_traces, f)
