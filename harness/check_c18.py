"""C18 -- inference I/O keeps parameters, individuals and draws aligned (module InferenceIO)."""
import json

from . import tlc
from .cache import cached
from .common import MachineryError, digest
from .verdict import Verdict, pmap

PROP = 'C18'
ASSUME = [
    'raw chains carry integer codes of (chain, draw, position), so every cell of the posterior dataset decodes to the raw '
    'entry it was taken from; a stub pints.Optimiser returns its starting point',
    'individual likelihoods over ProbeMech; priors log-normal for scale-like and Gaussian for location-like population '
    'parameters; read-back (PosteriorPredictiveModel, compute_pointwise_loglikelihood) on compositions of centred '
    'non-covariate sub-models with pooled dimensions mapped through param_map',
    'hierarchical pointwise log-likelihoods are not implemented in chi (NotImplementedError) and are outside this check',
]


def _compute(tier, seed):
    r = tlc.run('InferenceIO', 'InferenceIO_%s.cfg' % tier)
    recs = r.records
    if tier == 'thorough':
        recs = [x for x in recs if len(x['subs']) < 3 or int(digest(x), 16) % 6 == seed % 6]
    from . import replay_inferenceio
    results = pmap(replay_inferenceio.replay_case, [(rec, seed) for rec in recs])
    return dict(run=r.summary(), n=len(recs), results=results,
                samples=[{k: recs[i][k] for k in ('subs', 'nids', 'names', 'ids', 'cells')} for i in (len(recs) // 2, len(recs) - 1)])


def run(tier, seed):
    v = Verdict(PROP, tier, seed)
    out = cached('inferenceio', tier, seed, lambda: _compute(tier, seed))
    for fails, cnt in out['results']:
        v.failures(fails)
        v.merge_counters(cnt)
    for s in out['samples']:
        v.sample(s)
    # the filter posterior (blocks [population | sigma | individuals | noise], one or two observables): the shared run of
    # module FilterPosterior (see C13), judged on its chain-formatting clause
    from . import check_c13
    fp = cached('filterposterior', tier, seed, lambda: check_c13._compute(tier, seed))
    for fails, cnt in fp['results']:
        v.failures([f for f in fails if f['clause'] == 'IO_ExactlyOnce'])
        v.count('filterposterior_chains_formatted', cnt.get('chains_formatted', 0))
    nt = v.counters.get('nontrivial', 0) or sum(1 for _ in out['results'])
    if v.counters.get('readbacks', 0) == 0 or v.counters.get('evaluations', 0) == 0:
        v.vacuous('vacuous run')
    cov = dict(states=out['run']['states'], transitions=out['run']['transitions'], traces_validated_against_impl=out['n'],
               evaluations=v.counters.get('evaluations', 0),
               distinct_nontrivial=v.counters.get('feat_has_P', 0) + v.counters.get('feat_has_H', 0), exhaustive=(tier == 'quick'),
               rule='every PopLayout composition (<= 2 (3) sub-models, <= 3 individuals, 2 chains x 3 draws): _format_chains on '
                    'coded chains, initial points (3 samples, seed repeated around a global-generator perturbation, provenance '
                    'of the population sample), optimisation table with a stub optimiser, read-back; non-trivial = a pooled or '
                    'heterogeneous dimension is present',
               readbacks=v.counters.get('readbacks', 0), tlc_runs=[out['run']])
    return v.finish('model_checking', cov, ASSUME)


def replay(path):
    from . import replay_inferenceio
    rep = json.load(open(path))
    if 'nsamples' in rep['case']['config']:          # a configuration of module FilterPosterior (shared run)
        from . import replay_filterposterior
        fails, _ = replay_filterposterior.replay_case((rep['case']['config'], rep['seed']))
        v = Verdict(PROP, 'quick', rep['seed'])
        fails = [f for f in fails if f['clause'] == 'IO_ExactlyOnce' and v.failure(f)]
    else:
        fails, _ = replay_inferenceio.replay_case((rep['case']['config'], rep['seed']))
    for f in fails:
        print('VIOLATION property=%s replay=%s' % (PROP, path))
        print('  clause=%s manifestation=%s detail=%s' % (f['clause'], f['manifestation'], str(f['detail'])[:400]))
        return 1
    print('replay passes')
    return 0
