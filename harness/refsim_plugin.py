"""pytest plugin: run the repository's solver-dependent tests on RefSim (they become drivers whose
RefSim / recorder traces are validated against the trace specifications)."""
import os
import sys

sys.path.insert(0, os.path.dirname(os.path.dirname(os.path.abspath(__file__))))
from harness import refsim  # noqa: E402

refsim.install()
