#!/venv/bin/python
"""Applies a seeded change, runs the quick checks of the given properties (default: all), reports which raise a VIOLATION,
and restores the tree.  Usage: tools/try_patch.py patch.diff [C01 C05 ...]

By default the change is applied to /repo itself (and undone afterwards; refuses if /repo has uncommitted changes).  With
TRY_SRC=<scratch worktree of /repo> it is applied there instead and the checks read chi from that worktree (CHI_SRC), so
that /repo is never touched and several evaluations can run side by side.  Evidence of these runs goes to a scratch
directory, never to /verif/evidence."""
import json, os, shutil, subprocess, sys, tempfile
HERE = os.path.dirname(os.path.dirname(os.path.abspath(__file__)))
patch = os.path.abspath(sys.argv[1])
ids = sys.argv[2:] or [c['property_id'] for c in json.load(open(os.path.join(HERE, 'MANIFEST.json')))['checks']]
src = os.environ.get('TRY_SRC') or '/repo'
st = subprocess.run(['git', '-C', src, 'status', '--porcelain', '--untracked-files=no'], capture_output=True, text=True).stdout
if st.strip():
    sys.exit('refusing: %s has uncommitted changes:\n' % src + st)
subprocess.run(['git', '-C', src, 'apply', patch], check=True)
evdir = tempfile.mkdtemp(prefix='try_patch_ev_')
res = {}
try:
    procs = {}
    for i in ids:
        procs[i] = subprocess.Popen([os.path.join(HERE, 'check'), i, '--tier', 'quick'], cwd=HERE, stdout=subprocess.PIPE,
                                    stderr=subprocess.STDOUT, text=True,
                                    env=dict(os.environ, VERIF_EVIDENCE_DIR=evdir, CHI_SRC=src))
        if len(procs) % 4 == 0:
            for p in procs.values():
                p.wait()
    for i, p in procs.items():
        out = p.communicate()[0]
        viol = [l for l in out.splitlines() if l.startswith('VIOLATION')]
        detail = [l for l in out.splitlines() if l.startswith('  clause=')]
        res[i] = (p.returncode, len(viol), detail[:2], [l for l in out.splitlines() if 'MACHINERY' in l][:1])
finally:
    subprocess.run(['git', '-C', src, 'checkout', '--', '.'], check=True)
    shutil.rmtree(evdir, ignore_errors=True)
for i in ids:
    rc, nv, detail, mach = res[i]
    print('%s exit=%d violations=%d %s %s' % (i, rc, nv, ' | '.join(detail)[:300], mach))
