#!/venv/bin/python
"""Applies a seeded change to /repo, runs the quick checks of the given properties (default: all),
reports which raise a VIOLATION, and restores /repo.  Usage: tools/try_patch.py patch.diff [C01 C05 ...]"""
import json, os, subprocess, sys, time
HERE = os.path.dirname(os.path.dirname(os.path.abspath(__file__)))
patch = os.path.abspath(sys.argv[1])
ids = sys.argv[2:] or [c['property_id'] for c in json.load(open(os.path.join(HERE, 'MANIFEST.json')))['checks']]
st = subprocess.run(['git', '-C', '/repo', 'status', '--porcelain', '--untracked-files=no'], capture_output=True, text=True).stdout
if st.strip():
    sys.exit('refusing: /repo has uncommitted changes:\n' + st)
subprocess.run(['git', '-C', '/repo', 'apply', patch], check=True)
res = {}
try:
    procs = {}
    for i in ids:
        procs[i] = subprocess.Popen([os.path.join(HERE, 'check'), i, '--tier', 'quick'], cwd=HERE, stdout=subprocess.PIPE,
                                    stderr=subprocess.STDOUT, text=True, env=dict(os.environ, VERIF_EVIDENCE_DIR='/dev/null'))
        if len(procs) % 4 == 0:
            for p in procs.values():
                p.wait()
    for i, p in procs.items():
        out = p.communicate()[0]
        viol = [l for l in out.splitlines() if l.startswith('VIOLATION')]
        detail = [l for l in out.splitlines() if l.startswith('  clause=')]
        res[i] = (p.returncode, len(viol), detail[:2], [l for l in out.splitlines() if 'MACHINERY' in l][:1])
finally:
    subprocess.run(['git', '-C', '/repo', 'checkout', '--', '.'], check=True)
    subprocess.run(['git', '-C', HERE, 'checkout', '--', 'evidence'], check=False)
for i in ids:
    rc, nv, detail, mach = res[i]
    print('%s exit=%d violations=%d %s %s' % (i, rc, nv, ' | '.join(detail)[:300], mach))
