#!/venv/bin/python
"""Confirms a seeded change produced by a sub-agent and records it under /verif/seeded/<name>/.

  tools/seed_eval.py <name> <worktree> <property> [checks to run ...]

1. in the scratch worktree: demo passes on the clean tree, fails with the patch, the stable baseline tests still pass
   with the patch;   2. applies the patch in the worktree, runs the quick checks against it (CHI_SRC), restores it;   3. writes patch.diff, the
   demonstration and meta.json."""
import json, os, shutil, subprocess, sys, tempfile
import xml.etree.ElementTree as ET
HERE = os.path.dirname(os.path.dirname(os.path.abspath(__file__)))
name, wt, prop = sys.argv[1:4]
checks = sys.argv[4:] or [prop]
out = os.path.join(wt, 'MUTANT_OUT')
patch = os.path.join(out, 'patch.diff')
env = dict(os.environ, PYTHONPATH=wt)
env.pop('CHI_VERIF', None)


def sh(cmd, **kw):
    return subprocess.run(cmd, cwd=wt, env=env, capture_output=True, text=True, **kw)


def stable_passing():
    x = tempfile.mktemp(suffix='.xml')
    sh(['/venv/bin/python', '-m', 'pytest', '-q', '-p', 'no:cacheprovider', '--timeout=900', '--continue-on-collection-errors',
        '--junitxml=' + x, 'chi/tests'])
    ok = set()
    for tc in ET.parse(x).getroot().iter('testcase'):
        if not any(ch.tag in ('failure', 'error', 'skipped') for ch in tc):
            ok.add('%s::%s' % (tc.get('classname'), tc.get('name')))
    os.remove(x)
    return ok


sh(['git', 'checkout', '--', 'chi'])
clean = sh(['/venv/bin/python', os.path.join(out, 'demo.py')])
ap = sh(['git', 'apply', patch])
if ap.returncode:
    sys.exit('patch does not apply: ' + ap.stderr)
try:
    mut = sh(['/venv/bin/python', os.path.join(out, 'demo.py')])
    base = set(json.load(open('/root/.vp/BASELINE.json'))['stable_pass'])
    missing = sorted(base - stable_passing())
finally:
    sh(['git', 'checkout', '--', 'chi'])
print('demo clean exit=%d, mutated exit=%d, stable tests lost with the patch: %d' % (clean.returncode, mut.returncode, len(missing)))
confirmed = clean.returncode == 0 and mut.returncode != 0 and not missing
# the checks read chi from the scratch worktree with the change applied (/repo is never touched)
r = subprocess.run([os.path.join(HERE, 'tools', 'try_patch.py'), patch] + checks, capture_output=True, text=True,
                   env=dict(os.environ, TRY_SRC=wt))
print(r.stdout, r.stderr[-500:])
caught = {}
for l in r.stdout.splitlines():
    if l[:1] == 'C' and ' exit=' in l:
        cid = l.split()[0]
        caught[cid] = dict(exit=int(l.split('exit=')[1].split()[0]), violations=int(l.split('violations=')[1].split()[0]),
                           first=l.split('violations=')[1].split(' ', 1)[1][:300] if ' ' in l.split('violations=')[1] else '')
dst = os.path.join(HERE, 'seeded', name)
os.makedirs(dst, exist_ok=True)
shutil.copy(patch, os.path.join(dst, 'patch.diff'))
shutil.copy(os.path.join(out, 'demo.py'), os.path.join(dst, 'demo.py'))
if os.path.exists(os.path.join(out, 'notes.md')):
    shutil.copy(os.path.join(out, 'notes.md'), os.path.join(dst, 'notes.md'))
meta = dict(name=name, breaks_property=prop, confirmed=confirmed,
            demo=dict(clean_exit=clean.returncode, mutated_exit=mut.returncode, mutated_tail=(mut.stdout + mut.stderr)[-400:]),
            stable_tests_lost=missing, checks_run=caught,
            caught_by=[c for c, v in caught.items() if v['exit'] == 1 and v['violations'] > 0],
            what_i_ran='tools/seed_eval.py %s' % ' '.join(sys.argv[1:]))
json.dump(meta, open(os.path.join(dst, 'meta.json'), 'w'), indent=1)
print(json.dumps({k: meta[k] for k in ('confirmed', 'caught_by')}))
