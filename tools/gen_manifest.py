#!/venv/bin/python
"""Generates /verif/MANIFEST.json from the table below and validates it against the schema.
Properties without a registered check are listed under not_applicable with the reason."""
import json
import os
import sys

HERE = os.path.dirname(os.path.dirname(os.path.abspath(__file__)))
sys.path.insert(0, os.path.join(HERE, '.deps'))

CLAIMED = {
    'C01': dict(
        engine='LogLik',
        text='TLC checks exhaustively, for every tuple of per-output time grids (ties, nesting, overlap) x error '
             'kinds within the constants and every history of evaluation calls, that the transcribed mechanism '
             '(union grid, index selection, positional pairing, running error slices, gradient scatter) sums '
             'exactly the declared bag of terms; every enumerated configuration is then replayed into the real '
             'chi.LogLikelihood with probes that observe the pairing, the solve and the slices, and the value, '
             'pointwise sequence and gradient are compared with the interpretation of the term bag.',
        note='bounded: <=2 (quick) / <=3 (thorough) outputs, <=3 observations per output, 4 time values; numeric '
             'leaves judged by harness/interp.py (documented densities, complex-step derivatives); ProbeMech '
             'stands for an arbitrary mechanistic model; each error-model parameter is also fixed at the likelihood in turn (value / pointwise / gradient again) and released; the run is shared with C03',
        technique='TLA+ spec (LogLik.tla) model-checked with TLC; spec->code replay of every enumerated configuration',
        design='6/C01'),
}
CLAIMED['C02'] = dict(
    engine='PopLayout',
    text='TLC checks, for every composition of population sub-models (Gaussian, log-normal, truncated Gaussian, pooled, '
         'heterogeneous; 1-2 dimensions; centred or not; covariate wrapper; fixed subsets) x number of individuals within '
         'the constants, that the published flat vector is a bijection onto slots, that counts, names and IDs describe the '
         'slot at each position and that the transcribed index arithmetic of chi (special-dimension table, _shape_eta shift '
         'loop, name slicing, ID copies, reduced-gradient scatter, reduced-model range shifts) equals the declarative '
         'layout. Every enumerated composition is built from the real chi classes inside a real '
         'HierarchicalLogLikelihood / HierarchicalLogPosterior; names, IDs and counts are compared literally and the score '
         'with the documented sum evaluated through the specification layout.',
    note='bounded: <=2 sub-models x <=2 dims x <=2 individuals x <=1 covariate x <=1 fixed (quick); <=3 sub-models, <=3 '
         'individuals, <=2 covariates, <=2 fixed (thorough); numeric leaves via harness/interp.py; covariate selections '
         'other than the default belong to C07',
    technique='TLA+ spec (PopLayout.tla) model-checked with TLC; spec->code replay of every enumerated composition',
    design='6/C02')
CLAIMED['C03'] = dict(
    engine='PopLayout',
    text='The gradient assembly of chi (per-output scatter in LogLikelihood.evaluateS1: LogLik.tla GradIsDecl; per sub-model '
         'reduced gradients scattered into the hierarchical vector: PopLayout.tla GradSlotOK/ScatterOK) is model-checked '
         'against the declarative gradient for every configuration; every enumerated composition is then evaluated with '
         'evaluateS1 and compared with the exact (complex-step) derivative of the documented log-pdf, position by position, '
         'including the score equality with __call__, the posterior with a prior on the population block and re-evaluation '
         'after S1.',
    note='same bounds as C02; "equals the derivative" is decided numerically against harness/interp.py (tolerance 1e-7), '
         'TLC decides the assembly; individual-level gradients are also exercised by the C01 replay; also judged here: the individual-level LogLik run (GradIsDecl, SensSwitch, FiniteAgree: at points with one parameter set to 0 / a negative number evaluateS1 is finite iff plain evaluation is), the gradient entries of the likelihood- and controller-level adapters of the shared FixParams run, individual likelihoods carrying a likelihood-level fixed parameter',
    technique='TLA+ specs (PopLayout.tla, LogLik.tla) model-checked with TLC; spec->code replay with exact-derivative oracle',
    design='6/C03')
CLAIMED['C17'] = dict(
    engine='PopLayout',
    text='Counts, names, IDs, special-dimension table and gradient lengths of every enumerated composition (incl. reduced '
         'models wrapped before or after the number of individuals is set) are compared with each other and with the numbers '
         'and strings the specification renders (Agree, UniqueDefault, SubOrder model-checked by TLC over the whole bounded '
         'configuration space).',
    note='same bounds as C02; reconfiguration histories (module PopReconfig): TLC re-checks every PopLayout invariant after '
         'every history of <=4 calls of set_n_ids / fix / release / set_dim_names / set_parameter_names on six compositions and '
         'all 23 017 histories of 4 calls (thorough: random walks of 8) are replayed on the real objects; known finding F26',
    technique='TLA+ specs (PopLayout.tla, PopReconfig.tla) model-checked with TLC; spec->code replay comparing literal names '
              'and counts, incl. every exported reconfiguration history',
    design='6/C17')
CLAIMED['C05'] = dict(
    engine='PopLeaf',
    text='TLC checks, for every leaf kind x centred x nDim x nIds x parameter layout x return form x upstream flag, that the '
         'flat / matrix / tensor layouts are views of one parameter map and that the separate, unflattened and reduced '
         'return forms place every per-individual contribution exactly once with lengths equal to the reported counts '
         '(pooled / heterogeneous overrides included). Every enumerated case is executed on the real leaf model and its '
         'value, individual-parameter transform and sensitivities are compared with the documented density and its exact '
         'derivatives; additivity of compositions is judged on every PopLayout composition.',
    note='bounded nDim<=2, nIds<=3 (quick) / 4, 4 (thorough); numeric leaves via harness/interp.py; normalisation of the '
         'documented densities is checked by quadrature in the interpretation table self-test',
    technique='TLA+ spec (PopLeaf.tla, PopLayout.tla) model-checked with TLC; spec->code replay of every enumerated case',
    design='6/C05')
CLAIMED['C07'] = dict(
    engine='CovSel',
    text='The specification computes selection normalisation, the linear transform and its transpose in integers; TLC '
         'checks that the transcribed de-duplicate / double-stable-sort mechanism equals the declarative normal form for '
         'every selection list (any order, duplicates), that unselected parameters are untouched, that beta names are a '
         'bijection onto (parameter, dimension, covariate) triples and the transpose identity. chi must reproduce the '
         'integers exactly; the covariate population model is then compared with the underlying model evaluated per '
         'individual at the specification vartheta (likelihood, individual parameters, sensitivities, names).',
    note='bounded NPer<=2, nDim<=2 (3), nCov<=2, nIds<=2 (3), selections up to length 3 (4); differential oracle trusts '
         'the underlying leaf model (C05)',
    technique='TLA+ spec (CovSel.tla) with exact integer arithmetic model-checked by TLC; spec->code replay, exact comparison',
    design='6/C07')
CLAIMED['C09'] = dict(
    engine='SBMLOrder',
    text='TLC checks for every declaration order of up to 3 (4) states and 2 (3) constants, ordered output selections and '
         'fixed subsets that the double-argsort mechanism assigns the i-th vector entry to the i-th published name and that '
         'the sensitivity request lists init(state) / constants for the free parameters in the published order (the '
         'single-argsort variant is refuted as a negative control). For every enumerated configuration an SBML file with '
         'that declaration order is generated and loaded with SBMLModel / PKPDModel / ReducedMechanisticModel; the solver '
         'calls recorded by RefSim must equal the specification assignment literally and outputs and sensitivities must '
         'equal the closed-form matrix-exponential solution and its derivatives. Library models are compared with their '
         'documented equations integrated independently.',
    note='CVODES cannot be built in the sandbox: RefSim (pure Python reference integrator) is the trusted solver stand-in; '
         'models are linear chains plus an intermediate and a derived constant; tolerance 1e-6; every declaration order is replayed a second time behind an absorption compartment (indirect administration) with sensitivities for a seeded proper subset, selected by name and through a reduced wrapper',
    technique='TLA+ spec (SBMLOrder.tla) model-checked with TLC; spec->code replay on generated SBML models with solver-call '
              'trace comparison and closed-form oracle',
    design='6/C09')
CLAIMED['C10'] = dict(
    engine='Dosing',
    text='Integer-time specification of the regimen translation, the pacing semantics, the regimen table and the cumulative '
         'input; TLC checks that the (repaired) dose-count loop lists exactly the occurrences started up to the final time '
         'for every regimen x final time in the grid (the as-found loop is refuted) and bounds the delivered amount. Every '
         'case is replayed: table through PredictiveModel / PopulationPredictiveModel, delivery on an accumulator model '
         'dosed directly or through the depot (keyword regimen and explicit protocol), compared at every half time unit.',
    note='RefSim + myokit.PacingSystem stand in for the native solver; integer grid of regimens; dataset-derived regimens: C14; '
         'delivery is replayed under one of five simulation modes per case (Dosing!Modes: plain, sensitivities, re-selected '
         'sensitivities, reduced wrapper fixing with sensitivities on, sensitivities off again)',
    technique='TLA+ spec (Dosing.tla) model-checked with TLC; spec->code replay with exact table comparison and mass balance',
    design='6/C10')
CLAIMED['C11'] = dict(
    engine='MechModel',
    text='State machine of SBMLModel / PKPDModel with the hidden solver state (which solver an instance holds, which protocol, '
         'sensitivity setting and model structure that solver was built with) and one micro-step program per public call. TLC '
         'explores every history of calls on one (quick) / two (thorough, with copies) instances and checks that the reported '
         'regimen is the one the solver holds at every return and at every Run, that instances never share a solver and that '
         'hidden state is a function of the net configuration; the as-found update protocol is refuted. Every public-call '
         'transition and TLC-simulated behaviours are replayed on real models against freshly configured ones, and the recorded '
         'RefSim + method traces of those runs and of the repository solver-dependent tests are validated by TLC against the '
         'trace specification (a corrupted trace is rejected).',
    note='RefSim stands in for the native solver; bounded to 2 regimens, 2 output selections, 1 rename each, 2 instances; '
         'oracle is a fresh model configured canonically (its correctness is C09/C10); re-administration keeps the regimen; the two ReducedMechanisticModel adapters of the shared FixParams run are judged here as well (the wrapper is a mechanistic model)',
    technique='TLA+ spec (MechModel.tla) model-checked with TLC; spec->code replay of transitions and simulated behaviours; '
              'code->spec trace validation (Trace_MechModel.tla) of recorded executions incl. the repository tests',
    design='6/C11')
CLAIMED['C08'] = dict(
    engine='FixParams',
    text='Abstract state = the map of fixed name-value pairs; hidden state = mask, value buffer and the wrapped flag. TLC '
         'checks over all dictionaries (values, None, absent, foreign keys) and histories that the transcribed mask/buffer '
         'loop with collapse equals the declarative map update, that hidden state is a function of the map (order '
         'independence), reversibility and the substitution. Every transition of the state graph is then executed on '
         'eleven reducible object classes, reached by a short or a longer history, and names, counts and every evaluation '
         '(value, pointwise, restricted sensitivities, seeded samples, simulation, copy) are compared with the unfixed '
         'object at the substituted vector. Two alternative designs (constant Design: a fresh mask per call; no collapse '
         'after the last release) are refuted by TLC on every run as negative controls.',
    note='3 names x 2 values (+ foreign key) replayed; 4 names x 3 values at specification level in the thorough tier; '
         'the unfixed objects are the oracle; half of the histories are "primed" (sensitivities on / a gradient evaluation before '
         'the fixing history, gradient first afterwards); the all-parameters-fixed state is evaluated too',
    technique='TLA+ spec (FixParams.tla) model-checked with TLC; one implementation test per transition of the state graph',
    design='6/C08')
CLAIMED['C16'] = dict(
    engine='RandomStreams',
    text='Streams are modelled by key (integer seed, fresh entropy, global generator seeded or unknown) and position; TLC checks '
         'which sampler designs satisfy Reproducible, Independent and Advanced (threading one generator and seeding the global '
         'generator do; re-creating a generator from the same integer per sub-sampler and drawing from the unseeded global '
         'generator are refuted). Every sampling entry point of chi (23: error, population, predictive, prior / posterior / '
         'averaged predictive models, initial-parameter sampling) is run under recording generators for an integer seed, None '
         'and a Generator object; the recorded MakeGen / Draw / GlobalSeed / GlobalDraw events are validated by TLC against '
         'the trace specification, and the equal / different pattern of real results is compared for the histories the '
         'property names.',
    note='provenance-based, no statistical test; primitives of NumPy / SciPy trusted; one call per entry point and seed kind '
         '(an int, the int 0, a NumPy int, None, a Generator)',
    technique='TLA+ spec (RandomStreams.tla) model-checked with TLC; code->spec trace validation (Trace_RandomStreams.tla) of '
              'recorded generator events; equality-pattern replay with real generators',
    design='6/C16')
CLAIMED['C06'] = dict(
    engine='SampleAlgebra',
    text='Distributional statement turned into exact algebra: each sampler (4 error models, Gaussian / log-normal centred and '
         'not, truncated Gaussian, pooled, composed, reduced, covariate population models) is run under scripted recording '
         'generators that identify, cell by cell, the affine or log-affine form over its primitive normal atoms (or the '
         'truncated-normal atom / constant it returns). TLC evaluates SampleAlgebra on every recorded call: derived law '
         '(mean, sum of squared integer coefficients, truncation point) = law the documented density claims; independence '
         'as disjoint atom supports. Design-level controls of the algebra are part of every run.',
    note='primitives of NumPy / SciPy trusted; integer inputs (units 1/2); no statistical test; moments helpers compared '
         'numerically with scipy.stats; heterogeneous sampler (row choice) judged structurally by C16 only',
    technique='code->spec: recorded sampler calls checked by TLC against a TLA+ algebra of laws (SampleAlgebra.tla)',
    design='6/C06')
CLAIMED['C04'] = dict(
    engine='ErrorModel',
    text='TLC enumerates every error-model case (kind x number of observations x width of the output-sensitivity matrix x '
         'sign class of every scale parameter and of the outputs) and checks the support rule, pointwise = total and the '
         'layout of the sensitivity vector (mechanistic entries, then error parameters). Each case is concretised with '
         'seeded values and executed on the real error model: values against the documented densities, gradients against '
         'exact derivatives chained through the supplied output sensitivities, -inf classes against the rule.',
    note='normalisation ("integrates to one") is established for the documented densities by quadrature in the '
         'interpretation-table self-test and inherited by chi through pointwise equality; numeric leaves are not TLC\'s',
    technique='TLA+ spec (ErrorModel.tla) model-checked with TLC; spec->code replay of every enumerated case',
    design='6/C04')
CLAIMED['C12'] = dict(
    engine='Filters',
    text='TLC explores every history of sort_times calls and checks that the deferred order kept by a composed filter pairs '
         'every original time point with its own simulated column and returns sensitivities in input order (the overwrite '
         'variant is refuted). Every history is replayed on plain and composed filters of all five kinds with seeded data '
         '(missing values included): value and sensitivities against the documented estimator and density and their exact '
         'derivatives, invariance under padding with missing values, permuting individuals, re-ordering and splitting time '
         'points.',
    note='documented formulas are the oracle (typed independently); numeric comparison 1e-9 / 1e-7; bounded sizes',
    technique='TLA+ spec (Filters.tla) model-checked with TLC; spec->code replay of every enumerated history on 5 filter kinds',
    design='6/C12')
CLAIMED['C13'] = dict(
    engine='FilterPosterior',
    text='FilterPosterior.tla extends PopLayout with the block layout [population | sigma | eta | epsilon] of the filter '
         'posterior; TLC checks position<->slot bijection, counts, ID marking and that the transcribed scatter of pooled / '
         'heterogeneous dimensions (_reshape_bottom_parameters with its shortcuts) and the gather target of '
         '_remove_duplicates agree with the declarative source of every individual parameter, for every composition (the '
         'as-found shortcuts are refuted). Every configuration is built as a real PopulationFilterLogPosterior; names, IDs, '
         'counts literal; value up to one constant; gradient exact.',
    note='bounded: <=2 (3) sub-models, <=2 dims, 2-3 simulated individuals, 1 (2) observables, <=3 times; one open known '
         'finding (covariate model around a pooled / heterogeneous dimension); three time points with every input order (3-cycles), filters composed over the time points, a second posterior built from the same filter object (FilterReuse)',
    technique='TLA+ spec (FilterPosterior.tla extending PopLayout.tla) model-checked with TLC; spec->code replay of every '
              'enumerated configuration',
    design='6/C13')
CLAIMED['C14'] = dict(
    engine='Controller',
    text='The specification defines, for a long-format dataset, the posterior it describes: individuals in first-occurrence '
         'order, per individual and output the (time, value) pairs of the mapped observable in row order, the dose events of '
         'its own dose rows (bolus by default) and its covariate value; TLC enumerates all datasets of a few extra rows over '
         'eight row kinds (one of them a measurement row that also carries a dose) and checks routing sanity (each usable measurement routed once, unrelated rows irrelevant, own rows '
         'only). Datasets are replayed as pandas frames (int or string ids, extra column) through ProblemModellingController '
         'on a dosed PKPD model; regimens, names, IDs, value and gradient must equal those of the posterior assembled by hand '
         'from the specification record, in individual, population and population+covariate mode.',
    note='RefSim stands in for the solver; bounded datasets (<= 2-3 extra rows + base rows, 1-2 individuals, 2 times); the '
         'hand-assembled posterior uses the plain constructors as oracle; the mapping is written in either order; clause AppliedRegimen = the protocol the solver ran with for every individual',
    technique='TLA+ spec (Controller.tla) model-checked with TLC; spec->code replay with a hand-assembled differential oracle',
    design='6/C14')
CLAIMED['C18'] = dict(
    engine='InferenceIO',
    text='InferenceIO.tla (extending PopLayout) states which dataset cell (variable name, individual) each vector position '
         'belongs to and transcribes the name-mask mechanism of _format_chains; TLC checks the bijection and the absence of '
         'name clashes for every composition. Each composition is replayed with integer-coded chains through '
         'SamplingController._format_chains, sample_initial_parameters (dimension, seed reproducibility, provenance of the '
         'individual-level draws, finite prior / population terms), OptimisationController.run with a stub optimiser, and '
         'the dataset is read back through PosteriorPredictiveModel and compute_pointwise_loglikelihood.',
    note='bounded as PopLayout; codes instead of real chains; read-back on centred non-covariate compositions',
    technique='TLA+ spec (InferenceIO.tla extending PopLayout.tla) model-checked with TLC; spec->code replay with coded chains',
    design='6/C18')
CLAIMED['C15'] = dict(
    engine='Predictive',
    text='Predictive.tla defines the bag of (ID, time, observable) labels a predictive table must carry and transcribes the '
         'three table constructions of chi; TLC checks they list every label exactly once with ascending times for every '
         'request (model kind x outputs x unsorted / repeated times x sample size x covariates). Each request is executed: '
         'labels, covariate and dose rows literal; integer-coded posterior datasets show that each posterior / averaged '
         'predictive draw uses one joint (chain, draw) row of the selected individual; population-predictive individuals are '
         'identified under scripted generators and checked by TLC with SampleAlgebra, the measurement stage numerically.',
    note='NumPy primitives trusted; stage-wise identification (the marginal law of a two-stage sampler is outside the algebra); '
         'RefSim for regimen rows; which posterior rows / member models are drawn is tested against Predictive!PosteriorLaw / '
         'AveragedLaw with 1 200 seeded samples each (reachability of every row, chi-square / binomial at level 1e-9)',
    technique='TLA+ specs (Predictive.tla, SampleAlgebra.tla) with TLC; spec->code replay of every request; code->spec check of '
              'recorded sampler calls',
    design='6/C15')
CLAIMED['C20'] = dict(
    engine='Plots',
    text='Plots.tla states the rank rule of the prediction bands in exact rational arithmetic and TLC verifies, for every '
         'sample sequence (ties included) and a grid of bulk probabilities, that the limits enclose the requested fraction, are '
         'nested and exist monotonically; it also defines the routing of data-frame rows to per-individual marker and dose '
         'traces. Every enumerated sample sequence / row set is plotted with the real figure classes and the plotly traces '
         'are read back and compared; data frames are compared before and after. Beyond the enumerated bound the same '
         'invariants (enclosure, nesting, limits are samples) are evaluated exactly on the output for seeded sets of 101 to '
         '1000 distinct samples.',
    note='figure objects, not pixels; threshold ties between floating point and exact arithmetic are excluded from the '
         'equality check (the property itself is still checked on them); band frames list the time points in ascending order or later-first; probabilities include 0.99 and 0.995; routing rows carry dose and duration independently',
    technique='TLA+ spec (Plots.tla) model-checked with TLC; spec->code replay through the plotly figure objects',
    design='6/C20')
CLAIMED['C19'] = dict(
    engine='Purity',
    text='Purity.tla builds on MechModel: the user owns one model, every object built from it owns a copy, an evaluation is a '
         'short run of public calls on the owned model that flips the hidden sensitivity switch and rebuilds the solver. TLC '
         'explores all interleavings of evaluations of two objects and of later user changes and checks that the solver of '
         'every owned model holds the reported regimen at every Run, that nothing is shared and that the result-relevant '
         'configuration of an owned model never changes (Isolation). TLC-simulated interleavings are replayed on seven pairs '
         'of real objects (likelihoods, posteriors, hierarchical and filter posteriors, predictive models) against freshly '
         'built objects, with user mutations, input comparison, forked workers and pints.ParallelEvaluator; the recorded '
         'solver traces are validated against Trace_MechModel.',
    note='RefSim stands in for the solver; 2 objects per behaviour; results compared at rtol 1e-9 with a fresh object; the '
         'specification also models who owns the fixed-parameter arrays of a reduced error model (EMIsolation; shallow copies '
         'refuted by TLC): the user re-fixes the model he handed over, fix_parameters on one sibling object',
    technique='TLA+ spec (Purity.tla extending MechModel.tla) model-checked with TLC; spec->code replay of simulated '
              'interleavings; code->spec trace validation',
    design='6/C19')

NOT_YET = {
}


def main():
    props = [json.loads(l) for l in open(os.path.join(HERE, 'properties.jsonl'))]
    checks = []
    na = []
    for p in props:
        pid = p['id']
        if pid in CLAIMED:
            c = CLAIMED[pid]
            checks.append(dict(
                property_id=pid,
                quick_cmd='./check %s --tier quick' % pid,
                thorough_cmd='./check %s --tier thorough' % pid,
                evidence_file='/verif/evidence/%s.json' % pid,
                replay_cmd_template='./check %s --replay {path}' % pid,
                engine=c['engine'],
                level_claimed=dict(category='model_checking', text=c['text'], design_ref=c['design']),
                level_note=c['note'],
                technique=c['technique']))
        else:
            na.append(dict(property_id=pid, reason=NOT_YET.get(
                pid, 'check not built yet in this round (the technique applies; see DESIGN.md section 6/%s); '
                     'not claimed until its TLA+ module and conformance harness exist' % pid)))
    engines = {}
    for c in checks:
        engines.setdefault(c['engine'], []).append(c['property_id'])
    man = dict(
        version=1,
        setup_cmd='./setup.sh',
        hooks=dict(
            guard='CHI_VERIF',
            enable='no in-source hooks: checks import chi from CHI_SRC (default /repo) and attach probes, the RefSim '
                   'stand-in for myokit.Simulation and recording generators from outside when CHI_VERIF=1',
            baseline_off_cmd='cd /repo && env -u CHI_VERIF /venv/bin/python -m pytest -ra -q -p no:cacheprovider '
                             '--timeout=900 --continue-on-collection-errors',
            source_commits=[],
            add_only=True),
        engines=[dict(name=k, path='spec/%s.tla' % k, serves_properties=v,
                      kind_free_text='TLA+ module model-checked by TLC, bound to chi by harness/replay_*.py')
                 for k, v in sorted(engines.items())],
        checks=checks,
        not_applicable=na,
        notes='Single entry point ./check <ID> --tier quick|thorough [--seed N] [--replay PATH]; exit 2 is reserved '
              'for machinery failures. Known findings: known_findings.json (open: F3a-c, F5a, F21/F21b/F21c, F26; fixed F1..F37 '
              'are listed there with their fix: commits). Checks read chi from CHI_SRC (default /repo); several checks share a '
              'cached run (DESIGN.md 0.1). Seeded changes and what catches them: seeded/, DESIGN.md 0.5; tools/regress_seeded.py '
              're-applies all of them. See DESIGN.md section 0 first.')
    path = os.path.join(HERE, 'MANIFEST.json')
    with open(path, 'w') as f:
        json.dump(man, f, indent=1)
        f.write('\n')
    try:
        import jsonschema
        jsonschema.validate(man, json.load(open('/root/.vp/MANIFEST.schema.json')))
        print('MANIFEST.json valid: %d checks, %d not_applicable' % (len(checks), len(na)))
    except ImportError:
        print('jsonschema not available; not validated')


if __name__ == '__main__':
    main()
