#!/venv/bin/python
"""Runs the repository's suite with the guard OFF and checks that every test of the stable baseline passes."""
import json, os, subprocess, sys, tempfile
import xml.etree.ElementTree as ET
base = json.load(open('/root/.vp/BASELINE.json'))
out = tempfile.mktemp(suffix='.xml')
env = dict(os.environ); env.pop('CHI_VERIF', None)
subprocess.run(['/venv/bin/python', '-m', 'pytest', '-q', '-p', 'no:cacheprovider', '--timeout=900',
                '--continue-on-collection-errors', '--junitxml=' + out], cwd='/repo', env=env,
               stdout=subprocess.DEVNULL, stderr=subprocess.DEVNULL)
passed = set()
for tc in ET.parse(out).getroot().iter('testcase'):
    if not any(ch.tag in ('failure', 'error', 'skipped') for ch in tc):
        passed.add('%s::%s' % (tc.get('classname'), tc.get('name')))
os.remove(out)
missing = [t for t in base['stable_pass'] if t not in passed]
print('stable baseline: %d tests, passing now: %d, missing: %d; total passing %d' % (len(base['stable_pass']), len(base['stable_pass']) - len(missing), len(missing), len(passed)))
for m in missing[:20]:
    print('  NOT PASSING:', m)
sys.exit(1 if missing else 0)
