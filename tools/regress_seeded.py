#!/venv/bin/python
"""Regression over the seeded changes: applies every seeded/<name>/patch.diff to /repo in turn (tools/try_patch.py, which
restores /repo afterwards), runs the quick check of the property the change was written against and reports whether it
raised a VIOLATION.  Usage: [TRY_SRC=<scratch worktree>] tools/regress_seeded.py [name-prefix ...]      (takes about two hours for all of them)

A patch that no longer applies (a later `fix:` commit changed the same lines) is reported as NOAPPLY, not as a miss."""
import os, subprocess, sys
HERE = os.path.dirname(os.path.dirname(os.path.abspath(__file__)))
want = sys.argv[1:]
missed = 0
for n in sorted(os.listdir(os.path.join(HERE, 'seeded'))):
    if want and not any(n.startswith(w) for w in want):
        continue
    patch = os.path.join(HERE, 'seeded', n, 'patch.diff')
    prop = n.split('-')[0]
    if subprocess.run(['git', '-C', os.environ.get('TRY_SRC') or '/repo', 'apply', '--check', patch], capture_output=True).returncode:
        print('%-80s NOAPPLY' % n, flush=True)
        continue
    r = subprocess.run([os.path.join(HERE, 'tools', 'try_patch.py'), patch, prop], capture_output=True, text=True)
    line = [l for l in r.stdout.splitlines() if l.startswith(prop + ' exit=')]
    verdict = line[0][:40] if line else ('?? ' + r.stderr[-200:])
    caught = bool(line) and ' exit=1 ' in line[0] + ' '
    missed += 0 if caught else 1
    print('%-80s %s %s' % (n, 'caught' if caught else 'MISSED', verdict), flush=True)
print('missed: %d' % missed)
sys.exit(1 if missed else 0)
