#!/venv/bin/python
import json, os, sys
HERE = os.path.dirname(os.path.dirname(os.path.abspath(__file__)))
sys.path.insert(0, os.path.join(HERE, '.deps'))
import jsonschema
schema = json.load(open('/root/.vp/EVIDENCE.schema.json'))
bad = 0
for f in sorted(os.listdir(os.path.join(HERE, 'evidence'))):
    if f.endswith('.json'):
        try:
            jsonschema.validate(json.load(open(os.path.join(HERE, 'evidence', f))), schema)
            print('ok  ', f)
        except Exception as e:
            bad += 1
            print('BAD ', f, str(e)[:300])
sys.exit(1 if bad else 0)
