------------------------------ MODULE MechModel ------------------------------
(***************************************************************************)
(* chi.SBMLModel / chi.PKPDModel as a state machine (properties C11, C19,  *)
(* part of C10).                                                           *)
(*                                                                         *)
(* ABSTRACT state of an instance m: its net configuration                  *)
(*    cfg[m] = [ex, admin, reg, outs, pren, oren, sens]                    *)
(* (exists; route of administration none / direct / indirect; regimen id,  *)
(* 0 = none; output-selection id, 0 = default; number of renamed           *)
(* parameters / outputs; sensitivity switch).                              *)
(* HIDDEN state the code really has: the solver object the instance holds  *)
(* (solver[m], an id) and, per live solver, the protocol it holds, whether *)
(* it was built with sensitivities and the model structure it was built    *)
(* from (sinfo).  Several public calls REBUILD the solver and must then     *)
(* re-attach the protocol; that is what goes wrong in practice.            *)
(*                                                                         *)
(* One public call = Call(m, op, arg), a short run of named micro-actions  *)
(* (NewSolver, Attach, Run) taken from a per-call program (pend[m]), then  *)
(* the instance is idle again.  Effect(op, arg, c) is the intended         *)
(* net-configuration transition; documented resets are part of it          *)
(* (administration, output selection and copying switch sensitivities      *)
(* off).  Whether a change of administration keeps or clears an earlier    *)
(* regimen is a parameter (ReAdmin): the property text admits both.        *)
(*                                                                         *)
(* Design = "repaired" is the update protocol of the repaired code;         *)
(* Design = "asfound" omits the re-attachment in set_administration (as    *)
(* found at the pinned commit) and must be refuted by TLC.                 *)
(***************************************************************************)
EXTENDS Naturals, Sequences, FiniteSets, TLC, Json, SequencesExt, FiniteSetsExt

CONSTANTS NInst, Regs, OutSels, OutSelsRen, OutSelsDose, ReAdmin, Design, MaxOps

VARIABLES cfg,      \* [1..NInst -> configuration record]
          pend,     \* [1..NInst -> sequence of micro-steps still to do in the current call]
          solver,   \* [1..NInst -> solver id, 0 = none]
          sinfo,    \* [live solver ids -> [prot, sens, struct]]
          nops,     \* number of public calls so far
          last,     \* observation of the last completed call (for export)
          hist      \* history of public calls with the configuration after each (not part of the VIEW)
vars == <<cfg, pend, solver, sinfo, nops, last, hist>>

Inst   == 1..NInst
Admins == {"none", "direct", "indirect"}
NoCfg  == [ex |-> FALSE, admin |-> "none", reg |-> 0, outs |-> 0, pren |-> 0, oren |-> 0, sens |-> FALSE]
Fresh  == [NoCfg EXCEPT !.ex = TRUE]

\* ---- intended effect of a public call on the net configuration ------------------------------
MM_Effect(op, arg, c) ==
  CASE op = "adm"  -> [c EXCEPT !.admin = arg, !.sens = FALSE,
                                !.reg = IF ReAdmin = "clear" THEN 0 ELSE c.reg]
    [] op = "reg"  -> IF c.admin = "none" THEN c ELSE [c EXCEPT !.reg = arg]     \* raises without a route
    \* an output selection that leaves the renamed output out forgets its display name (OutSelsRen: the selections that
    \* contain the output `oren` renames); selecting it again later shows it under its own name
    [] op = "outs" -> [c EXCEPT !.outs = arg, !.sens = FALSE, !.oren = IF arg \in OutSelsRen THEN c.oren ELSE 0]
    [] op = "sens" -> [c EXCEPT !.sens = arg]
    [] op = "pren" -> [c EXCEPT !.pren = c.pren + 1]
    [] op = "oren" -> [c EXCEPT !.oren = c.oren + 1]
    [] op = "sim"  -> c
    [] op = "copy" -> c
    [] op = "bad"  -> c        \* a call that is REJECTED (unknown output / compartment / parameter / malformed names): no effect
MM_CopyOf(c) == [c EXCEPT !.sens = FALSE]                  \* copying resets the sensitivity settings

\* ---- micro-actions on the hidden state ---------------------------------------------------------
LiveSids == {solver[m] : m \in {q \in Inst : solver[q] # 0}}
FreshSid == CHOOSE s \in 1..(NInst + 1) : s \notin LiveSids
Gc(f, keep) == [s \in (DOMAIN f) \cap keep |-> f[s]]       \* dead solvers are forgotten

MM_NewSolver(m, sensFlag, struct, sid) ==
  /\ sid \notin LiveSids \ {solver[m]}
  /\ solver' = [solver EXCEPT ![m] = sid]
  /\ sinfo'  = Gc(sinfo, (LiveSids \ {solver[m]})) @@ (sid :> [prot |-> 0, sens |-> sensFlag, struct |-> struct])
MM_Attach(m, p) ==
  /\ solver[m] \in DOMAIN sinfo
  /\ sinfo' = [sinfo EXCEPT ![solver[m]].prot = p]
  /\ UNCHANGED solver

\* consistency of hidden and abstract state of an idle instance
MM_Consistent(m) ==
  /\ solver[m] \in DOMAIN sinfo
  /\ sinfo[solver[m]].prot   = cfg[m].reg
  /\ sinfo[solver[m]].sens   = cfg[m].sens
  /\ sinfo[solver[m]].struct = cfg[m].admin

\* ---- programs of the public calls (Design) -------------------------------------------------------
\* a step is <<"solver", sensFlag>> | <<"attach">> | <<"run">>
Rebuild(b) == <<<<"solver", b>>, <<"attach">>>>
Program(op, arg, c) ==
  CASE op = "adm"  -> IF Design = "asfound" THEN <<<<"solver", FALSE>>>> ELSE Rebuild(FALSE)
    [] op = "reg"  -> IF c.admin = "none" THEN <<>> ELSE <<<<"attach">>>>
    [] op = "outs" -> IF c.sens THEN Rebuild(FALSE) ELSE <<>>
    [] op = "sens" -> IF arg \/ c.sens THEN Rebuild(arg) ELSE <<>>
    [] op = "sim"  -> <<<<"run">>>>
    [] OTHER       -> <<>>

BadKinds == {"outs", "adm", "sens", "pren"}
Idle(m) == pend[m] = <<>>
AllIdle == \A m \in Inst : Idle(m)

\* OutSelsDose: output selections that name a variable of the DOSE compartment, which exists only behind an indirect route:
\* they can be chosen only then, and while one is chosen the route stays indirect (set again, it keeps the selection)
Ops(c) == {<<"adm", a>> : a \in (IF c.outs \in OutSelsDose THEN {"indirect"} ELSE {"direct", "indirect"})}
          \cup {<<"reg", r>> : r \in Regs}
          \cup {<<"outs", o>> : o \in (IF c.admin = "indirect" THEN OutSels ELSE OutSels \ OutSelsDose)}
          \cup {<<"sens", b>> : b \in BOOLEAN}
          \cup (IF c.pren = 0 THEN {<<"pren", 0>>} ELSE {}) \cup (IF c.oren = 0 /\ c.outs \in OutSelsRen THEN {<<"oren", 0>>} ELSE {})
          \cup {<<"sim", 0>>} \cup {<<"bad", k>> : k \in BadKinds}

MM_Call(m, op, arg) ==
  /\ AllIdle /\ cfg[m].ex /\ nops < MaxOps
  /\ cfg'  = [cfg EXCEPT ![m] = MM_Effect(op, arg, cfg[m])]
  /\ pend' = [pend EXCEPT ![m] = Program(op, arg, cfg[m])]
  /\ nops' = nops + 1
  /\ last' = [m |-> m, op |-> op, arg |-> arg]
  /\ hist' = Append(hist, [src |-> cfg, op |-> last', dst |-> cfg'])
  /\ UNCHANGED <<solver, sinfo>>

MM_Copy(m, m2) ==
  /\ AllIdle /\ cfg[m].ex /\ ~cfg[m2].ex /\ nops < MaxOps
  /\ cfg'  = [cfg EXCEPT ![m2] = MM_CopyOf(cfg[m])]
  /\ pend' = [pend EXCEPT ![m2] = Rebuild(FALSE)]
  /\ nops' = nops + 1
  /\ last' = [m |-> m, op |-> "copy", arg |-> m2]
  /\ hist' = Append(hist, [src |-> cfg, op |-> last', dst |-> cfg'])
  /\ UNCHANGED <<solver, sinfo>>

MM_Step(m) ==
  /\ ~Idle(m)
  /\ LET st == Head(pend[m]) IN
       CASE st[1] = "solver" -> MM_NewSolver(m, st[2], cfg[m].admin, FreshSid)
         [] st[1] = "attach" -> MM_Attach(m, cfg[m].reg)
         [] st[1] = "run"    -> UNCHANGED <<solver, sinfo>>
  /\ pend' = [pend EXCEPT ![m] = Tail(pend[m])]
  /\ UNCHANGED <<cfg, nops, last, hist>>

Init == /\ cfg = [m \in Inst |-> IF m = 1 THEN Fresh ELSE NoCfg]
        /\ pend = [m \in Inst |-> <<>>]
        /\ solver = [m \in Inst |-> IF m = 1 THEN 1 ELSE 0]
        /\ sinfo = (1 :> [prot |-> 0, sens |-> FALSE, struct |-> "none"])
        /\ nops = 0 /\ last = [m |-> 0, op |-> "init", arg |-> 0] /\ hist = <<>>

Next == \/ \E m \in Inst : \E oa \in Ops(cfg[m]) : MM_Call(m, oa[1], oa[2])
        \/ \E m, m2 \in Inst : m # m2 /\ MM_Copy(m, m2)
        \/ \E m \in Inst : MM_Step(m)
Spec == Init /\ [][Next]_vars
View == <<cfg, pend, solver, sinfo>>

\* ---- properties ---------------------------------------------------------------------------------
\* the regimen the model reports is the one its simulations apply; the solver was built for the
\* reported structure and sensitivity setting -- whenever no call is in progress, and at every Run
ProtocolFollowsRegimen == AllIdle => \A m \in Inst : cfg[m].ex => MM_Consistent(m)
RunIsConsistent == \A m \in Inst : (~Idle(m) /\ Head(pend[m])[1] = "run") => MM_Consistent(m)
\* a copy and its original never share a solver
NoSharing == \A m1, m2 \in Inst : (m1 # m2 /\ cfg[m1].ex /\ cfg[m2].ex /\ solver[m1] # 0 /\ solver[m2] # 0)
                => solver[m1] # solver[m2]
\* at most one call in progress (the library is sequential)
Sequential == Cardinality({m \in Inst : ~Idle(m)}) <= 1
\* history independence: hidden state is a function of the net configuration (up to solver identity)
HistoryIndependence == AllIdle => \A m \in Inst : cfg[m].ex =>
   sinfo[solver[m]] = [prot |-> cfg[m].reg, sens |-> cfg[m].sens, struct |-> cfg[m].admin]
\* a route is needed before a regimen can exist (unless cleared)
RegimenNeedsRoute == \A m \in Inst : cfg[m].reg # 0 => cfg[m].admin # "none"

\* ---- export: one record per transition of the abstract graph (public calls only) -----------------
EmitCall == (AllIdle' /\ nops' = nops + 1) =>
              PrintT("@@" \o ToJson([src |-> cfg, op |-> last', dst |-> cfg', n |-> nops']))
\* in -simulate mode: one complete behaviour per line (invariants are evaluated on the chosen path only)
EmitHist == (nops = MaxOps /\ AllIdle) => PrintT("@@" \o ToJson(hist))
EmitStart == (nops' = nops + 1) => PrintT("@@" \o ToJson([src |-> cfg, op |-> last', dst |-> cfg', n |-> nops']))
=============================================================================
