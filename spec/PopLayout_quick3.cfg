CONSTANTS
  MaxSub = 1
  MaxDim = 2
  MaxIds = 3
  MaxCov = 1
  MaxFixed = 1
  CovSpecial = "repaired"
SPECIFICATION Spec
CHECK_DEADLOCK FALSE
INVARIANT PL_Bijection
INVARIANT PL_Counts
INVARIANT IdsMarkBottom
INVARIANT EtaColOK
INVARIANT BottomNamesOK
INVARIANT IdsOK
INVARIANT GradSlotOK
INVARIANT ScatterOK
INVARIANT UniqueDefault
INVARIANT SubOrder
INVARIANT SpecialTableOK
INVARIANT Emit
