CONSTANTS
  MaxStates = 4
  MaxConsts = 3
  MaxOut = 2
  MaxFixed = 1
  Variant = "asfound"
SPECIFICATION Spec
CHECK_DEADLOCK FALSE
INVARIANT StateAssignmentOK
INVARIANT SensRequestOK
INVARIANT AssignmentBijective
INVARIANT OutputsOK
INVARIANT Emit
