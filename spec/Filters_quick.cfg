CONSTANTS
  MaxTimes = 3
  MaxSorts = 3
  Variant = "repaired"
SPECIFICATION Spec
CHECK_DEADLOCK FALSE
INVARIANT PairingOK
INVARIANT SensOrderOK
INVARIANT TIsPermutation
ACTION_CONSTRAINT Emit
