CONSTANTS
  MaxOut = 1
  TimeDom = {1, 2, 3}
  MaxTimes = 2
  MaxSamp = 3
  MaxCov = 2
SPECIFICATION Spec
CHECK_DEADLOCK FALSE
INVARIANT LabelsOK
INVARIANT AscendingOK
INVARIANT EveryIdOnce
INVARIANT LawsNormalised
INVARIANT Emit
