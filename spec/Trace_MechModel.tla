--------------------------- MODULE Trace_MechModel ---------------------------
(***************************************************************************)
(* code -> spec for MechModel: recorded executions of real chi.SBMLModel / *)
(* chi.PKPDModel objects (method recorder + RefSim events) are checked      *)
(* against the specification.  The effect function MM_Effect / MM_CopyOf    *)
(* and the consistency predicate MM_Consistent of MechModel are reused;     *)
(* the abstract configuration of an instance is what the object itself      *)
(* REPORTS when a public call returns, the hidden state (which solver holds *)
(* which protocol) is what RefSim OBSERVED.                                 *)
(*                                                                         *)
(* Events (one JSON record each):                                          *)
(*   New(m, rep)            constructor returned; rep = reported config     *)
(*   Call(m, op, arg)       top-level public call starts                    *)
(*   NewSim(sid, sens, struct, prot)   a solver was created                 *)
(*   SetProtocol(sid, prot)                                                *)
(*   Run(sid)               the solver integrates                           *)
(*   Return(m, rep, err [, m2, rep2])  the call returned (copy: new m2)     *)
(* rep = [admin, reg, outs, pren, oren, sens, sid, tab]                     *)
(*                                                                         *)
(* Verdicts are total: every event is consumed; the first failing clause    *)
(* and its line are remembered and printed when the trace ends.  Many       *)
(* traces are validated in one TLC run (one initial state per trace).       *)
(***************************************************************************)
EXTENDS MechModel, IOUtils

VARIABLES tid, l, verdict, cur
tvars == <<cfg, pend, solver, sinfo, nops, last, hist, tid, l, verdict, cur>>

Traces == JsonDeserialize(IOEnv.TRACE_FILE)
Trace  == Traces[tid]
Ev     == Trace[l]
NoCall == [m |-> 0, op |-> "none", arg |-> 0]

CfgOf(rep) == [ex |-> TRUE, admin |-> rep.admin, reg |-> rep.reg, outs |-> rep.outs,
               pren |-> rep.pren, oren |-> rep.oren, sens |-> rep.sens]

\* first failing clause wins
Fail(clause) == IF verdict.clause = "" THEN [clause |-> clause, line |-> l] ELSE verdict
Check(ok, clause, v) == IF ok THEN v ELSE IF v.clause = "" THEN [clause |-> clause, line |-> l] ELSE v

\* the pren / oren counters of the trace are reported, not predicted: compare everything else
SameBut(c1, c2, op) ==
  /\ c1.admin = c2.admin /\ c1.reg = c2.reg /\ c1.outs = c2.outs /\ c1.sens = c2.sens
  /\ (op # "pren" => c1.pren = c2.pren) /\ (op \notin {"oren", "outs"} => c1.oren = c2.oren)      \* (a selection may drop renamed outputs)

ConsistentWith(c, sid, si) ==
  /\ sid \in DOMAIN si
  /\ si[sid].prot = c.reg /\ si[sid].sens = c.sens /\ si[sid].struct = c.admin

TInit == /\ tid \in 1..Len(Traces) /\ l = 1
         /\ cfg = <<>> /\ solver = <<>> /\ sinfo = <<>>
         /\ pend = <<>> /\ nops = 0 /\ last = NoCall /\ hist = <<>>
         /\ verdict = [clause |-> "", line |-> 0] /\ cur = NoCall

Step == l <= Len(Trace) /\ l' = l + 1 /\ UNCHANGED <<tid, pend, nops, last, hist>>

T_New ==
  /\ Step /\ Ev.e = "New"
  /\ cfg' = (Ev.m :> CfgOf(Ev.rep)) @@ cfg
  /\ solver' = (Ev.m :> Ev.rep.sid) @@ solver
  /\ verdict' = Check(ConsistentWith(CfgOf(Ev.rep), Ev.rep.sid, sinfo), "New:ProtocolFollowsRegimen",
                Check(Ev.rep.tab = (Ev.rep.admin = "indirect"), "New:TablesFollowStructure", verdict))
  /\ UNCHANGED <<sinfo, cur>>

T_Call ==
  /\ Step /\ Ev.e = "Call"
  /\ cur' = [m |-> Ev.m, op |-> Ev.op, arg |-> Ev.arg]
  /\ verdict' = Check(Ev.m \in DOMAIN cfg, "Call:unknown_instance", verdict)
  /\ UNCHANGED <<cfg, solver, sinfo>>

T_NewSim ==
  /\ Step /\ Ev.e = "NewSim"
  /\ sinfo' = (Ev.sid :> [prot |-> Ev.prot, sens |-> Ev.sens, struct |-> Ev.struct]) @@ sinfo
  /\ UNCHANGED <<cfg, solver, verdict, cur>>

T_SetProtocol ==
  /\ Step /\ Ev.e = "SetProtocol"
  /\ IF Ev.sid \in DOMAIN sinfo
     THEN sinfo' = [sinfo EXCEPT ![Ev.sid].prot = Ev.prot] /\ UNCHANGED verdict
     ELSE UNCHANGED sinfo /\ verdict' = Fail("SetProtocol:unknown_solver")
  /\ UNCHANGED <<cfg, solver, cur>>

\* a Run happens inside a simulate call of an instance; the solver must be that instance's solver and
\* hold the regimen, sensitivity setting and structure the instance reports
T_Run ==
  /\ Step /\ Ev.e = "Run"
  /\ LET owners == {m \in DOMAIN solver : solver[m] = Ev.sid} IN
       verdict' =
         Check(Cardinality(owners) <= 1, "Run:NoSharing",
         Check(owners # {} /\ (cur.op = "sim" => cur.m \in owners), "Run:orphan_solver",
         Check(\A m \in owners : ConsistentWith(cfg[m], Ev.sid, sinfo), "Run:ProtocolFollowsRegimen", verdict)))
  /\ UNCHANGED <<cfg, solver, sinfo, cur>>

T_Return ==
  /\ Step /\ Ev.e = "Return"
  /\ LET m    == Ev.m
         c0   == cfg[m]
         c1   == CfgOf(Ev.rep)
         exp  == IF Ev.err THEN c0 ELSE MM_Effect(cur.op, cur.arg, c0)
         v1   == Check(cur.m = m, "Return:unmatched_call", verdict)
         v2   == Check(SameBut(c1, exp, cur.op), "Return:Effect(" \o cur.op \o ")", v1)
         v3   == Check(ConsistentWith(c1, Ev.rep.sid, sinfo), "Return:ProtocolFollowsRegimen(" \o cur.op \o ")", v2)
         v4   == Check(Ev.rep.tab = (c1.admin = "indirect"), "Return:TablesFollowStructure(" \o cur.op \o ")", v3)
         v5   == Check(\A q \in DOMAIN solver : q # m => solver[q] # Ev.rep.sid, "Return:NoSharing", v4)
     IN IF cur.op = "copy" /\ ~Ev.err
        THEN LET c2 == CfgOf(Ev.rep2)
                 v6 == Check(SameBut(c2, MM_CopyOf(c1), "copy") /\ c2.pren = c1.pren /\ c2.oren = c1.oren,
                             "Return:CopyOf", v5)
                 v7 == Check(ConsistentWith(c2, Ev.rep2.sid, sinfo), "Return:ProtocolFollowsRegimen(copy)", v6)
                 v8 == Check(Ev.rep2.sid # Ev.rep.sid /\ \A q \in DOMAIN solver : solver[q] # Ev.rep2.sid,
                             "Return:NoSharing(copy)", v7)
             IN /\ cfg' = (Ev.m2 :> c2) @@ [cfg EXCEPT ![m] = c1]
                /\ solver' = (Ev.m2 :> Ev.rep2.sid) @@ [solver EXCEPT ![m] = Ev.rep.sid]
                /\ verdict' = v8
        ELSE /\ cfg' = [cfg EXCEPT ![m] = c1]
             /\ solver' = [solver EXCEPT ![m] = Ev.rep.sid]
             /\ verdict' = v5
  /\ cur' = NoCall
  /\ UNCHANGED sinfo

\* an instance was garbage collected / a solver replaced: nothing to check
T_Other ==
  /\ Step /\ Ev.e \notin {"New", "Call", "NewSim", "SetProtocol", "Run", "Return"}
  /\ UNCHANGED <<cfg, solver, sinfo, verdict, cur>>

TNext == T_New \/ T_Call \/ T_NewSim \/ T_SetProtocol \/ T_Run \/ T_Return \/ T_Other
TSpec == TInit /\ [][TNext]_tvars

\* one verdict line per trace, printed when its last event has been consumed
EmitVerdict == (l = Len(Trace) + 1) =>
   PrintT("@@" \o ToJson([tid |-> tid, clause |-> verdict.clause, line |-> verdict.line, events |-> Len(Trace)]))
=============================================================================
