CONSTANTS
  MaxTimes = 3
  MaxSorts = 3
  Variant = "asfound"
SPECIFICATION Spec
CHECK_DEADLOCK FALSE
INVARIANT PairingOK
INVARIANT SensOrderOK
INVARIANT TIsPermutation
