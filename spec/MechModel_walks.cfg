CONSTANTS
  NInst = 2
  Regs = {1, 2}
  OutSels = {0, 1, 2, 3}
  OutSelsRen = {0, 1, 3}
  OutSelsDose = {3}
  ReAdmin = "keep"
  Design = "repaired"
  MaxOps = 12
SPECIFICATION Spec
CHECK_DEADLOCK FALSE
INVARIANT ProtocolFollowsRegimen
INVARIANT RunIsConsistent
INVARIANT NoSharing
INVARIANT Sequential
INVARIANT HistoryIndependence
INVARIANT RegimenNeedsRoute
INVARIANT EmitHist
