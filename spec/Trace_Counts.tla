----------------------------- MODULE Trace_Counts -----------------------------
(***************************************************************************)
(* code -> spec for property C17 over RECORDED executions of any chi        *)
(* object (harness/counts_plugin.py wraps every public method of every      *)
(* chi class that reports parameter names; the repository's whole test      *)
(* suite, run on RefSim, is the driver).                                    *)
(*                                                                         *)
(* One event per top-level public call, logged after it returned or raised: *)
(*   [cls, obj, op, err, n, nnames, nids, ntop, ntopnames]                  *)
(* n = n_parameters(), nnames = number of reported names, nids = number of  *)
(* reported IDs (-1: the class has none), ntop / ntopnames the same with    *)
(* exclude_bottom_level=True (-1: not hierarchical).                        *)
(*                                                                         *)
(* parts = the model objects the object holds references to (composites do  *)
(* not copy their parts), mut = the call was a mutator (set_*, fix_*, ...). *)
(* A composite whose PART was reconfigured directly by the driver since the *)
(* composite's own last mutator call is excused: the driver went behind its *)
(* back (the repository's fixtures do), which no clause of C17 covers.      *)
(*                                                                         *)
(*   Agree        n = nnames, and nids = n where IDs are reported           *)
(*   AgreeTop     ntop = ntopnames where the object is hierarchical         *)
(*   FailedCallNoEffect  a call that raised left the counts alone           *)
(***************************************************************************)
EXTENDS Integers, Sequences, FiniteSets, TLC, Json, IOUtils

VARIABLES tid, l, last, verdict, mutAt, ownAt
tvars == <<tid, l, last, verdict, mutAt, ownAt>>

Traces == JsonDeserialize(IOEnv.TRACE_FILE)
Trace  == Traces[tid]
Ev     == Trace[l]
Check(ok, clause, v) == IF ok THEN v ELSE IF v.clause = "" THEN [clause |-> clause, line |-> l] ELSE v

TInit == /\ tid \in 1..Len(Traces) /\ l = 1 /\ last = <<>> /\ verdict = [clause |-> "", line |-> 0]
         /\ mutAt = <<>>        \* object -> line of the last mutator call made directly on it
         /\ ownAt = <<>>        \* object -> line of its own last successful mutator call
TStep ==
  /\ l <= Len(Trace) /\ l' = l + 1 /\ UNCHANGED tid
  /\ LET o == Ev.obj
         known == o \in DOMAIN last
         now == <<Ev.n, Ev.nnames, Ev.nids, Ev.ntop, Ev.ntopnames>>
         own == IF Ev.mut THEN l ELSE IF o \in DOMAIN ownAt THEN ownAt[o] ELSE 0
         behindBack == \E q \in DOMAIN Ev.parts : Ev.parts[q] \in DOMAIN mutAt /\ mutAt[Ev.parts[q]] > own
     IN /\ mutAt' = IF Ev.mut THEN [k \in (DOMAIN mutAt) \cup {o} |-> IF k = o THEN l ELSE mutAt[k]] ELSE mutAt
        /\ ownAt' = IF Ev.mut /\ ~Ev.err THEN [k \in (DOMAIN ownAt) \cup {o} |-> IF k = o THEN l ELSE ownAt[k]] ELSE ownAt
        /\ last' = [k \in (DOMAIN last) \cup {o} |-> IF k = o THEN now ELSE last[k]]
        /\ verdict' =
             Check(behindBack \/ (Ev.n = Ev.nnames /\ (Ev.nids = -1 \/ Ev.nids = Ev.n)), "Agree",
             Check(behindBack \/ Ev.ntop = Ev.ntopnames, "AgreeTop",
             Check((known /\ Ev.err) => now = last[o], "FailedCallNoEffect", verdict)))
TSpec == TInit /\ [][TStep]_tvars
EmitVerdict == (l = Len(Trace) + 1) =>
   PrintT("@@" \o ToJson([tid |-> tid, clause |-> verdict.clause, line |-> verdict.line, events |-> Len(Trace)]))
=============================================================================
