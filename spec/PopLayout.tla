------------------------------ MODULE PopLayout ------------------------------
(***************************************************************************)
(* Layout of hierarchical parameter vectors: chi.ComposedPopulationModel,  *)
(* CovariatePopulationModel, ReducedPopulationModel, and the flat vector   *)
(* of chi.HierarchicalLogLikelihood / HierarchicalLogPosterior             *)
(* (properties C02, C03 hierarchical part, C17, C18's layout).             *)
(*                                                                         *)
(* A configuration is a sequence of sub-model descriptors                  *)
(*    [kind \in {G, LN, TG, P, H}, nd, cen, cov]                           *)
(* (Gaussian, log-normal, truncated Gaussian, pooled, heterogeneous; nd    *)
(* dimensions; centred or not; cov = number of covariates of a linear      *)
(* covariate wrapper with the default all-parameter selection, 0 = none),  *)
(* a number of individuals nIds and a set of fixed population positions.   *)
(*                                                                         *)
(* Decl: a SLOT is the abstract identity of a scalar; the published vector *)
(* is a sequence of slots (Layout); names and IDs are rendered here.       *)
(* Mech: the index arithmetic of chi transcribed -- the special-dimension  *)
(* table, _shape_eta's shift loop, the name slicing of get_parameter_names,*)
(* the n_copies rule of get_id, the scatter of                             *)
(* _compute_reduced_sensitivities and the mask arithmetic of the Reduced   *)
(* wrapper.  TLC checks Mech = Decl for every composition.                 *)
(***************************************************************************)
EXTENDS Naturals, Sequences, FiniteSets, TLC, Json, SequencesExt, FiniteSetsExt

CONSTANTS MaxSub, MaxDim, MaxIds, MaxCov, MaxFixed,
          CovSpecial   \* "repaired": reduced sensitivities of a covariate wrapper fold dpsi of a
                       \* special dimension into the population block; "asfound": they do not

VARIABLES subs, nIds, fixed,
          phase,     \* "raw" -> "built": the tables below are derived once per configuration (Build), the way
          tb         \* the real objects cache them (_n_bottom, _special_dims, names); tb is a record of tables
vars == <<subs, nIds, fixed, phase, tb>>

Kinds == {"G", "LN", "TG", "P", "H"}
SubDescs == {m \in [kind : Kinds, nd : 1..MaxDim, cen : BOOLEAN, cov : 0..MaxCov] :
               (m.kind \notin {"G", "LN"}) => m.cen}

PL_Sum(f) == FoldLeft(LAMBDA acc, x : acc + x, 0, f)
PL_Flat(ss) == FoldLeft(LAMBDA acc, x : acc \o x, <<>>, ss)
PL_Rng(s) == {s[i] : i \in DOMAIN s}

NSub == Len(subs)
IsSpecial(m) == m.kind \in {"P", "H"}
NPer(m)  == CASE m.kind = "P" -> 1 [] m.kind = "H" -> nIds [] OTHER -> 2
NPop(m)  == NPer(m) * m.nd
NBeta(m) == m.cov * NPop(m)              \* default selection: every (parameter, dimension) pair
NTopOf(m) == NPop(m) + NBeta(m)
NBotOf(m) == IF IsSpecial(m) THEN 0 ELSE nIds * m.nd

NDim   == PL_Sum([j \in 1..NSub |-> subs[j].nd])
NCov   == PL_Sum([j \in 1..NSub |-> subs[j].cov])
DimOff(j) == PL_Sum([q \in 1..(j - 1) |-> subs[q].nd])        \* dims before sub-model j
TopOff(j) == PL_Sum([q \in 1..(j - 1) |-> NTopOf(subs[q])])   \* population entries before j
CovOff(j) == PL_Sum([q \in 1..(j - 1) |-> subs[q].cov])
SubOf(d)  == CHOOSE j \in 1..NSub : DimOff(j) < d /\ d <= DimOff(j) + subs[j].nd
LocalDim(d) == d - DimOff(SubOf(d))
HDimsOf == SelectSeq([d \in 1..NDim |-> d], LAMBDA d : ~IsSpecial(subs[SubOf(d)]))
HDims == tb.hdims
NHDim == Len(HDims)

-----------------------------------------------------------------------------
(* Decl: slots and the published layout *)
Eta(i, d)      == <<"eta", i, d, 0>>
Theta(j, p, dl) == <<"theta", j, p, dl>>
Beta(j, s, c)  == <<"beta", j, s, c>>

ThetaSeq(j) == LET m == subs[j] IN
  [q \in 1..NPop(m) |-> Theta(j, ((q - 1) \div m.nd) + 1, ((q - 1) % m.nd) + 1)]   \* parameter-major
BetaSeq(j) == LET m == subs[j] IN
  [q \in 1..NBeta(m) |-> Beta(j, ((q - 1) \div m.cov) + 1, ((q - 1) % m.cov) + 1)]  \* selection-major
TopFullOf == PL_Flat([j \in 1..NSub |-> ThetaSeq(j) \o BetaSeq(j)])
EtaSeq == tb.etaseq
TopFull == tb.topfull
NTopFull == Len(TopFull)
FreeTop == tb.freetop
Top     == [k \in DOMAIN FreeTop |-> TopFull[FreeTop[k]]]
Layout  == EtaSeq \o Top
NBottom == Len(EtaSeq)
NTop    == Len(Top)
NParams == NBottom + NTop

-----------------------------------------------------------------------------
(* names *)
ParamName(m, p) == CASE m.kind = "G"  -> IF p = 1 THEN "Mean" ELSE "Std."
                     [] m.kind = "LN" -> IF p = 1 THEN "Log mean" ELSE "Log std."
                     [] m.kind = "TG" -> IF p = 1 THEN "Mu" ELSE "Sigma"
                     [] m.kind = "P"  -> "Pooled"
                     [] m.kind = "H"  -> "ID " \o ToString(p)
LocalNameOf(s) == LET j == s[2] IN
  IF s[1] = "theta" THEN ParamName(subs[j], s[3]) \o " Dim. " \o ToString(s[4])
  ELSE LET m == subs[j]
           p == ((s[3] - 1) \div m.nd) + 1
           dl == ((s[3] - 1) % m.nd) + 1
       IN ParamName(m, p) \o " Dim. " \o ToString(dl) \o " Cov. " \o ToString(s[4])
GlobalNameOf(s) == LET j == s[2] IN
  IF s[1] = "theta" THEN ParamName(subs[j], s[3]) \o " Dim. " \o ToString(DimOff(j) + s[4])
  ELSE LET m == subs[j]
           p == ((s[3] - 1) \div m.nd) + 1
           dl == ((s[3] - 1) % m.nd) + 1
       IN ParamName(m, p) \o " Dim. " \o ToString(DimOff(j) + dl) \o " Cov. " \o ToString(s[4])
\* the composed model renumbers the dimensions globally iff the local names collide
Collide == tb.collide
TopNameFull(k) == IF Collide THEN GlobalNameOf(TopFull[k]) ELSE LocalNameOf(TopFull[k])
LLName(d) == IF d = NDim THEN "Sigma" ELSE "P" \o ToString(d)      \* names of the individual likelihood
LLId(i)   == "Log-likelihood " \o ToString(i)
NameOf(k) == IF k <= NBottom THEN LLName(EtaSeq[k][3]) ELSE TopNameFull(FreeTop[k - NBottom])
IdOf(k)   == IF k <= NBottom THEN LLId(EtaSeq[k][2]) ELSE "None"
NamesOf == [k \in 1..NParams |-> NameOf(k)]
IdsOf   == [k \in 1..NParams |-> IdOf(k)]
Names == tb.names          \* cached by the second build step
Ids   == tb.ids

-----------------------------------------------------------------------------
(* Mech: transcription of chi's index arithmetic *)

\* special-dimension table of the composed model: <<startDim, endDim, startPar, endPar, pooled>>
\* (0-based half-open ranges as in the code); covariate wrappers copy the table of the inner model
SpecialTableOf == SelectSeq(
  [j \in 1..NSub |-> <<DimOff(j), DimOff(j) + subs[j].nd, TopOff(j), TopOff(j) + NPop(subs[j]),
                       subs[j].kind = "P", IsSpecial(subs[j])>>],
  LAMBDA e : e[6])
SpecialTable == tb.special
\* the Reduced wrapper shifts the parameter ranges by the number of fixed entries in front
FixedBefore(x) == Cardinality({k \in fixed : k <= x})
ReducedSpecialTable == [e \in DOMAIN SpecialTable |->
  <<SpecialTable[e][1], SpecialTable[e][2], SpecialTable[e][3] - FixedBefore(SpecialTable[e][3]),
    SpecialTable[e][4] - FixedBefore(SpecialTable[e][4]), SpecialTable[e][5]>>]

\* _shape_eta: column of eta (0-based) that lands in column d-1 of eta_prime
RECURSIVE ShapeEta(_, _, _, _)
ShapeEta(e, start, shift, acc) ==      \* acc: [0-based target column -> 0-based source column]
  IF e > Len(SpecialTable)
  THEN acc @@ [c \in start..(NDim - 1) |-> c - shift]
  ELSE LET end == SpecialTable[e][1]
           acc2 == acc @@ [c \in start..(end - 1) |-> c - shift]
           start2 == SpecialTable[e][2]
       IN ShapeEta(e + 1, start2, shift + (start2 - end), acc2)
MechEtaCol == ShapeEta(1, 0, 0, <<>>)
DeclEtaCol == [h \in 1..NHDim |-> HDims[h] - 1]     \* source column h-1 -> target column HDims[h]-1

\* get_parameter_names: slicing of the individual names around the special dimensions
RECURSIVE SliceNames(_, _, _)
SliceNames(e, cur, acc) ==
  IF e > Len(SpecialTable) THEN acc \o [q \in 1..(NDim - cur) |-> LLName(cur + q)]
  ELSE SliceNames(e + 1, SpecialTable[e][2],
                  acc \o [q \in 1..(SpecialTable[e][1] - cur) |-> LLName(cur + q)])
MechBottomNames == LET one == SliceNames(1, 0, <<>>) IN PL_Flat([i \in 1..nIds |-> one])
\* get_id: n_copies = n_bottom // n_ids copies of each ID, then None for every population entry
MechIds == PL_Flat([i \in 1..nIds |-> [q \in 1..(NBottom \div nIds) |-> LLId(i)]])
           \o [q \in 1..NTop |-> "None"]

\* _compute_reduced_sensitivities: where each entry of a sub-model's reduced gradient lands.
\* Reduced gradient of sub-model j (in its own coordinates): n_b individual entries then n_t
\* population entries.  A covariate wrapper around a special dimension returns, as found,
\* n_ids*nd individual entries although it reports n_b = 0.
SubReducedLen(j) == LET m == subs[j] IN
  IF IsSpecial(m) /\ m.cov > 0 /\ CovSpecial = "asfound" THEN nIds * m.nd + NTopOf(m)
  ELSE NBotOf(m) + NTopOf(m)
ScatterConsistent == \A j \in 1..NSub : SubReducedLen(j) = NBotOf(subs[j]) + NTopOf(subs[j])
HDimOff(j) == PL_Sum([q \in 1..(j - 1) |-> IF IsSpecial(subs[q]) THEN 0 ELSE subs[q].nd])
\* slot whose derivative the assembled (unfixed) gradient holds at position k
MechGradSlot(k) ==
  IF k <= NBottom
  THEN LET i == ((k - 1) \div NHDim) + 1            \* dscore[:n_bottom] = dpsi.flatten()
           h == ((k - 1) % NHDim) + 1
           j == CHOOSE q \in 1..NSub : ~IsSpecial(subs[q]) /\ HDimOff(q) < h /\ h <= HDimOff(q) + subs[q].nd
       IN Eta(i, DimOff(j) + (h - HDimOff(j)))
  ELSE LET t == FreeTop[k - NBottom]                 \* the Reduced wrapper drops the fixed entries
           j == CHOOSE q \in 1..NSub : TopOff(q) < t /\ t <= TopOff(q) + NTopOf(subs[q])
       IN (ThetaSeq(j) \o BetaSeq(j))[t - TopOff(j)]

-----------------------------------------------------------------------------
Init == /\ \E n \in 1..MaxSub : subs \in [1..n -> SubDescs]
        /\ nIds \in 1..MaxIds
        /\ LET ntf == PL_Sum([j \in 1..Len(subs) |-> NTopOf(subs[j])])
           IN fixed \in UNION {kSubset(k, 1..ntf) : k \in 0..(IF MaxFixed < ntf THEN MaxFixed ELSE ntf)}
        /\ phase = "raw" /\ tb = <<>>
\* Build: derive the tables (sequentially dependent ones through a LET chain)
Build == /\ phase = "raw" /\ phase' = "tabled"
         /\ LET hd == HDimsOf
                tf == TopFullOf
            IN tb' = [hdims |-> hd,
                      etaseq |-> PL_Flat([i \in 1..nIds |-> [h \in 1..Len(hd) |-> Eta(i, hd[h])]]),
                      topfull |-> tf,
                      freetop |-> SelectSeq([k \in 1..Len(tf) |-> k], LAMBDA k : k \notin fixed),
                      collide |-> NSub > 1 /\ Cardinality({LocalNameOf(tf[k]) : k \in 1..Len(tf)}) # Len(tf),
                      special |-> SpecialTableOf]
         /\ UNCHANGED <<subs, nIds, fixed>>
\* second step: render and cache the published names and IDs
NameIt == /\ phase = "tabled" /\ phase' = "built"
          /\ tb' = [hdims |-> tb.hdims, etaseq |-> tb.etaseq, topfull |-> tb.topfull, freetop |-> tb.freetop,
                    collide |-> tb.collide, special |-> tb.special, names |-> NamesOf, ids |-> IdsOf]
          /\ UNCHANGED <<subs, nIds, fixed>>
Next == Build \/ NameIt
Built == phase = "built"
Spec == Init /\ [][Next]_vars

-----------------------------------------------------------------------------
(* Properties *)
PL_Bijection == Built => /\ Cardinality(PL_Rng(Layout)) = Len(Layout)            \* no slot twice
             /\ Len(Layout) = NParams
             /\ \A i \in 1..nIds : \A h \in 1..NHDim : Eta(i, HDims[h]) \in PL_Rng(Layout)
PL_Counts == Built => /\ NBottom = PL_Sum([j \in 1..NSub |-> NBotOf(subs[j])])
          /\ NBottom = nIds * NHDim
          /\ NTop = NTopFull - Cardinality(fixed)
          /\ NTopFull = PL_Sum([j \in 1..NSub |-> NTopOf(subs[j])])
IdsMarkBottom == Built => \A k \in 1..NParams : (Ids[k] # "None") <=> (Layout[k][1] = "eta")
EtaColOK == Built => \A h \in 1..NHDim : MechEtaCol[HDims[h] - 1] = h - 1
BottomNamesOK == Built => MechBottomNames = [k \in 1..NBottom |-> Names[k]]
IdsOK == Built => (MechIds = Ids)
GradSlotOK == (Built /\ ScatterConsistent) => \A k \in 1..NParams : MechGradSlot(k) = Layout[k]
ScatterOK == Built => ScatterConsistent
\* with default naming distinct parameters carry distinct names once prefixed by their ID (C17)
UniqueDefault == Built => Cardinality({<<Ids[k], Names[k]>> : k \in 1..NParams}) = NParams
\* sub-model names appear in the documented order (C17): the population block is the
\* concatenation of the sub-models' own blocks
SubOrder == Built => \A k1, k2 \in 1..NTop : k1 < k2 => Top[k1][2] <= Top[k2][2]
SpecialTableOK == Built =>
  \A e \in DOMAIN SpecialTable :
     /\ \A d \in (SpecialTable[e][1] + 1)..SpecialTable[e][2] : IsSpecial(subs[SubOf(d)])
     /\ \A t \in (SpecialTable[e][3] + 1)..SpecialTable[e][4] :
           TopFull[t][1] = "theta" /\ IsSpecial(subs[TopFull[t][2]])

-----------------------------------------------------------------------------
Config == [subs |-> subs, nids |-> nIds, fixed |-> fixed,
           ndim |-> NDim, ncov |-> NCov, nbottom |-> NBottom, ntop |-> NTop, ntopfull |-> NTopFull,
           layout |-> Layout, topfull |-> TopFull, names |-> Names, ids |-> Ids,
           topnamesfull |-> [k \in 1..NTopFull |-> TopNameFull(k)],
           hdims |-> HDims, collide |-> Collide,
           special |-> [e \in DOMAIN ReducedSpecialTable |->
                          <<ReducedSpecialTable[e][1], ReducedSpecialTable[e][2], ReducedSpecialTable[e][3],
                            ReducedSpecialTable[e][4], ReducedSpecialTable[e][5]>>]]
Emit == Built => PrintT("@@" \o ToJson(Config))
=============================================================================
