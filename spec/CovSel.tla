------------------------------- MODULE CovSel -------------------------------
(***************************************************************************)
(* chi.LinearCovariateModel / chi.CovariatePopulationModel: selection of   *)
(* the transformed population parameters, the linear transform and its     *)
(* transpose (property C07).  Everything here is integer arithmetic, so    *)
(* the specification computes the transform outright and the harness       *)
(* compares chi's numbers with the specification's EXACTLY.                *)
(*                                                                         *)
(* A configuration: parameters per dimension NPer, dimensions nDim,        *)
(* covariates nCov, individuals nIds and a selection = any non-empty       *)
(* list of in-range <<parameter, dimension>> pairs (any order, duplicates  *)
(* allowed).                                                               *)
(*   Decl  NormSel = the set of selected pairs, ordered by (parameter,     *)
(*         dimension) -- the order in which ndarray.flatten() visits the   *)
(*         (NPer x nDim) matrix of population parameters;                  *)
(*   Mech  set_population_parameters transcribed: first-occurrence         *)
(*         de-duplication, stable sort by dimension, stable sort by        *)
(*         parameter.                                                      *)
(***************************************************************************)
EXTENDS Naturals, Integers, Sequences, FiniteSets, TLC, Json, SequencesExt, FiniteSetsExt

CONSTANTS MaxPer, MaxDim, MaxCov, MaxIds, MaxSel,
          BigDims    \* dimensionalities for which the constructor's default selection (all pairs, dimension-major) is checked
VARIABLES nPer, nDim, nCov, nIds, sel, phase
vars == <<nPer, nDim, nCov, nIds, sel, phase>>
Checked == phase = "checked"

Pairs == (1..nPer) \X (1..nDim)
CS_Rng(s) == {s[i] : i \in DOMAIN s}
CS_Sum(f) == FoldLeft(LAMBDA acc, x : acc + x, 0, f)

\* ---- Decl ------------------------------------------------------------------
PairLess(a, b) == a[1] < b[1] \/ (a[1] = b[1] /\ a[2] < b[2])
NormSel == SetToSortSeq(CS_Rng(sel), PairLess)
NSel    == Len(NormSel)
SelIndex(p, d) == IF <<p, d>> \in CS_Rng(sel) THEN CHOOSE s \in 1..NSel : NormSel[s] = <<p, d>> ELSE 0
NBeta == NSel * nCov
BetaPos(s, c) == (s - 1) * nCov + c                   \* flat position of beta(s, c)

\* ---- Mech --------------------------------------------------------------------
RECURSIVE Dedup(_, _)
Dedup(s, acc) == IF s = <<>> THEN acc
                 ELSE Dedup(Tail(s), IF Head(s) \in CS_Rng(acc) THEN acc ELSE Append(acc, Head(s)))
\* stable insertion sort by key k (1 = parameter, 2 = dimension)
RECURSIVE InsertBy(_, _, _)
InsertBy(x, s, k) == IF s = <<>> THEN <<x>>
                     ELSE IF x[k] < Head(s)[k] THEN <<x>> \o s
                     ELSE <<Head(s)>> \o InsertBy(x, Tail(s), k)
StableSortBy(s, k) == FoldLeft(LAMBDA acc, x : InsertBy(x, acc, k), <<>>, s)
MechSel == StableSortBy(StableSortBy(Dedup(sel, <<>>), 2), 1)
MechIsDecl == Checked => MechSel = NormSel

\* ---- the transform, in integers --------------------------------------------------
Theta(p, d) == 10 * p + d
BetaV(s, c) == 100 * s + 7 * c - 50
Chi(i, c)   == 3 * i - 2 * c
VarTheta(i, p, d) == Theta(p, d) +
   (IF SelIndex(p, d) = 0 THEN 0 ELSE CS_Sum([c \in 1..nCov |-> BetaV(SelIndex(p, d), c) * Chi(i, c)]))
G(i, p, d) == 2 * i + 3 * p - 5 * d            \* upstream sensitivities d logp / d vartheta(i,p,d)
DTheta(p, d) == CS_Sum([i \in 1..nIds |-> G(i, p, d)])
DBeta(s, c)  == CS_Sum([i \in 1..nIds |-> G(i, NormSel[s][1], NormSel[s][2]) * Chi(i, c)])

\* zero covariates or zero betas leave the parameters unchanged; unselected parameters are never shifted
Unselected == Checked => \A i \in 1..nIds : \A pd \in Pairs :
                 pd \notin CS_Rng(sel) => VarTheta(i, pd[1], pd[2]) = Theta(pd[1], pd[2])
\* names <-> (parameter, dimension, covariate) bijection
BetaSlots == [q \in 1..NBeta |-> <<NormSel[((q - 1) \div nCov) + 1][1], NormSel[((q - 1) \div nCov) + 1][2],
                                   ((q - 1) % nCov) + 1>>]
NamesBijective == Checked =>
  /\ Cardinality(CS_Rng(BetaSlots)) = NBeta
  /\ CS_Rng(BetaSlots) = {<<pd[1], pd[2], c>> : pd \in CS_Rng(sel), c \in 1..nCov}
  /\ \A s \in 1..NSel : \A c \in 1..nCov : BetaSlots[BetaPos(s, c)] = <<NormSel[s][1], NormSel[s][2], c>>
\* transpose identity: <G, d vartheta> = <dTheta, d theta> + <dBeta, d beta> for every unit perturbation
Transpose == Checked =>
  /\ \A pd \in Pairs : DTheta(pd[1], pd[2]) = CS_Sum([i \in 1..nIds |-> G(i, pd[1], pd[2]) * 1])
  /\ \A s \in 1..NSel : \A c \in 1..nCov :
        DBeta(s, c) = CS_Sum([i \in 1..nIds |->
           CS_Sum([q \in 1..(nPer * nDim) |->
              LET p == ((q - 1) \div nDim) + 1  d == ((q - 1) % nDim) + 1
              IN G(i, p, d) * (IF SelIndex(p, d) = s THEN Chi(i, c) ELSE 0)])])

ParamName(p) == "Param " \o ToString(p)
\* the default selection made by CovariatePopulationModel: every pair, dimension-major (as passed to the covariate model)
DMajorAll(np_, nd_) == [q \in 1..(np_ * nd_) |-> <<((q - 1) % np_) + 1, ((q - 1) \div np_) + 1>>]
Init == /\ \/ /\ nPer \in 1..MaxPer /\ nDim \in 1..MaxDim /\ nCov \in 1..MaxCov /\ nIds \in 1..MaxIds
              /\ sel \in UNION {[1..k -> (1..nPer) \X (1..nDim)] : k \in 1..MaxSel}
           \/ /\ nPer = 2 /\ nDim \in BigDims /\ nCov = 1 /\ nIds = 2 /\ sel = DMajorAll(2, nDim)
        /\ phase = "raw"
Next == phase = "raw" /\ phase' = "checked" /\ UNCHANGED <<nPer, nDim, nCov, nIds, sel>>
Spec == Init /\ [][Next]_vars

Config == [nper |-> nPer, ndim |-> nDim, ncov |-> nCov, nids |-> nIds, sel |-> sel,
           normsel |-> NormSel, nbeta |-> NBeta,
           theta |-> [p \in 1..nPer |-> [d \in 1..nDim |-> Theta(p, d)]],
           beta  |-> [q \in 1..NBeta |-> BetaV(((q - 1) \div nCov) + 1, ((q - 1) % nCov) + 1)],
           chi   |-> [i \in 1..nIds |-> [c \in 1..nCov |-> Chi(i, c)]],
           vartheta |-> [i \in 1..nIds |-> [p \in 1..nPer |-> [d \in 1..nDim |-> VarTheta(i, p, d)]]],
           g      |-> [i \in 1..nIds |-> [p \in 1..nPer |-> [d \in 1..nDim |-> G(i, p, d)]]],
           dtheta |-> [q \in 1..(nPer * nDim) |-> DTheta(((q - 1) \div nDim) + 1, ((q - 1) % nDim) + 1)],
           dbeta  |-> [q \in 1..NBeta |-> DBeta(((q - 1) \div nCov) + 1, ((q - 1) % nCov) + 1)],
           betaslots |-> BetaSlots]
Emit == Checked => PrintT("@@" \o ToJson(Config))
=============================================================================
