SPECIFICATION Spec
CHECK_DEADLOCK FALSE
INVARIANT EmitVerdict
