CONSTANTS
  Doses = {1, 2}
  Starts = {0, 1, 2}
  Durs = {1, 2}
  Periods = {0, 1, 2, 3}
  Nums = {0, 1, 2, 3}
  Finals <- MCFinals
  Variant = "repaired"
SPECIFICATION Spec
CHECK_DEADLOCK FALSE
INVARIANT TableIsApplied
INVARIANT DeliversDoses
INVARIANT NoOverlap
INVARIANT Emit
