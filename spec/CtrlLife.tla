------------------------------ MODULE CtrlLife ------------------------------
(***************************************************************************)
(* Life cycle of chi.ProblemModellingController (properties C17 and C14,   *)
(* reconfiguration part; C08 for fixing through the controller).           *)
(*                                                                         *)
(* The controller is configured by public calls in any order:              *)
(*    set_population_model(p)   set_data(frame with n individuals)         *)
(*    fix_parameters({name: value | None})       set_log_prior(prior)      *)
(* and asked for get_log_posterior() / get_predictive_model() / names.     *)
(* Abstract state: the number of individuals in the data (0 = no data),    *)
(* the fixed individual-level parameters, the population model (a          *)
(* sequence of sub-model kinds over the FREE individual-level parameters), *)
(* the fixed population parameters, and the log-prior, represented by the  *)
(* LIST OF PARAMETER NAMES IT WAS SET FOR -- a prior is a prior over       *)
(* particular parameters, not over a number of dimensions.                 *)
(*                                                                         *)
(* Documented rules transcribed: fixing resets the prior; setting a        *)
(* population model resets the prior and the fixed population parameters;  *)
(* setting data un-fixes the population parameters and tells the           *)
(* population model the number of individuals (a heterogeneous dimension   *)
(* has one parameter per individual).                                      *)
(*                                                                         *)
(* PriorAgrees: whenever a prior is held, it was set for exactly the       *)
(* current parameter names -- so the posterior pairs prior dimension k     *)
(* with parameter k.  With PriorRule = "asfound" (set_data keeps the prior *)
(* whatever happens to the parameters) TLC refutes it.                     *)
(***************************************************************************)
EXTENDS Naturals, Sequences, FiniteSets, TLC, Json, SequencesExt, FiniteSetsExt

CONSTANTS MaxIds, MaxOps, PopMenu, PriorRule
VARIABLES nIds, fixedInd, pop, fixedPop, prior, nops, hist
vars == <<nIds, fixedInd, pop, fixedPop, prior, nops, hist>>

None == [set |-> FALSE, names |-> <<>>]
Held(ns) == [set |-> TRUE, names |-> ns]
Ind == <<"P1", "P2", "Sigma">>
CL_Flat(ss) == FoldLeft(LAMBDA acc, x : acc \o x, <<>>, ss)
CL_Rng(s) == {s[i] : i \in DOMAIN s}

FreeIndOf(fi) == SelectSeq(Ind, LAMBDA b : b \notin fi)
FreeInd == FreeIndOf(fixedInd)
NEff(n) == IF n = 0 THEN 1 ELSE n                    \* a population model starts with one individual
SubNames(k, b, n) == CASE k = "P"  -> << <<"Pooled", b, 0>> >>
                       [] k = "LN" -> << <<"Log mean", b, 0>>, <<"Log std.", b, 0>> >>
                       [] k = "H"  -> [i \in 1..NEff(n) |-> <<"ID", b, i>>]
PopNamesOf(p, fi, n) == CL_Flat([j \in 1..Len(p) |-> SubNames(p[j], FreeIndOf(fi)[j], n)])
NamesOf(p, fi, fp, n) == IF p = <<>> THEN [j \in 1..Len(FreeIndOf(fi)) |-> <<"ind", FreeIndOf(fi)[j], 0>>]
                         ELSE SelectSeq(PopNamesOf(p, fi, n), LAMBDA x : x \notin fp)
Names == NamesOf(pop, fixedInd, fixedPop, nIds)
PopNames == PopNamesOf(pop, fixedInd, nIds)
NBottom == IF pop = <<>> THEN 0 ELSE Cardinality({j \in 1..Len(pop) : pop[j] = "LN"}) * NEff(nIds)

Log(op, a) == hist' = Append(hist, [op |-> op, a |-> a, names |-> Names', prior |-> prior'.set])
Step == nops < MaxOps /\ nops' = nops + 1

SetPop(p) == /\ Step /\ Len(p) = Len(FreeInd)
             /\ pop' = p /\ fixedPop' = {} /\ prior' = None
             /\ UNCHANGED <<nIds, fixedInd>> /\ Log("setpop", p)
SetData(n) == /\ Step /\ nIds' = n /\ fixedPop' = {}
              /\ UNCHANGED <<fixedInd, pop>>
              /\ prior' = IF PriorRule = "asfound" THEN prior
                          ELSE IF NamesOf(pop, fixedInd, {}, n) = Names THEN prior ELSE None
              /\ Log("setdata", n)
\* fix_parameters: population parameters when a population model is set, individual-level parameters otherwise
FixInd(b) == /\ Step /\ pop = <<>> /\ b \in CL_Rng(FreeInd) /\ Len(FreeInd) > 1
             /\ fixedInd' = fixedInd \cup {b} /\ prior' = None
             /\ UNCHANGED <<nIds, pop, fixedPop>> /\ Log("fix", <<"ind", b, 0>>)
ReleaseInd(b) == /\ Step /\ pop = <<>> /\ b \in fixedInd
                 /\ fixedInd' = fixedInd \ {b} /\ prior' = None
                 /\ UNCHANGED <<nIds, pop, fixedPop>> /\ Log("release", <<"ind", b, 0>>)
FixPop(x) == /\ Step /\ pop # <<>> /\ x \in CL_Rng(Names) /\ Len(Names) > 1
             /\ fixedPop' = fixedPop \cup {x} /\ prior' = None
             /\ UNCHANGED <<nIds, pop, fixedInd>> /\ Log("fix", x)
ReleasePop(x) == /\ Step /\ pop # <<>> /\ x \in fixedPop
                 /\ fixedPop' = fixedPop \ {x} /\ prior' = None
                 /\ UNCHANGED <<nIds, pop, fixedInd>> /\ Log("release", x)
\* a key that names no parameter the controller can fix right now (e.g. an individual-level name while a population model
\* is set): nothing is fixed, the prior is reset all the same (documented: "fixing resets the log-prior")
FixForeign == /\ Step /\ prior' = None /\ UNCHANGED <<nIds, pop, fixedInd, fixedPop>> /\ Log("fixforeign", 0)
SetPrior == /\ Step /\ nIds > 0 /\ prior' = Held(Names)
            /\ UNCHANGED <<nIds, pop, fixedInd, fixedPop>> /\ Log("setprior", 0)

Init == nIds = 0 /\ fixedInd = {} /\ pop = <<>> /\ fixedPop = {} /\ prior = None /\ nops = 0 /\ hist = <<>>
Next == \/ \E p \in PopMenu : SetPop(p)
        \/ \E n \in 1..MaxIds : SetData(n)
        \/ \E b \in CL_Rng(Ind) : FixInd(b) \/ ReleaseInd(b)
        \/ \E x \in CL_Rng(PopNames) : FixPop(x) \/ ReleasePop(x)
        \/ FixForeign \/ SetPrior
Spec == Init /\ [][Next]_vars
View == <<nIds, fixedInd, pop, fixedPop, prior, nops>>

\* ---- properties ------------------------------------------------------------------------------
PriorAgrees == prior.set => prior.names = Names
PosteriorAvailable == nIds > 0 /\ prior.set
FixedExist == fixedPop \subseteq CL_Rng(PopNames) /\ fixedInd \subseteq CL_Rng(Ind)
PopFits == pop # <<>> => Len(pop) = Len(FreeInd)
NoDuplicates == Cardinality(CL_Rng(Names)) = Len(Names)

Emit == (nops = MaxOps) => PrintT("@@" \o ToJson([hist |-> hist, names |-> Names, prior |-> prior.names,
                                              hasprior |-> prior.set, available |-> PosteriorAvailable, nids |-> nIds,
                                              nbottom |-> NBottom, pop |-> pop, fixedind |-> fixedInd, fixedpop |-> fixedPop]))
=============================================================================
