CONSTANTS
  MaxOut = 2
  TimeDom = {1, 2, 3}
  MaxTimes = 3
  MaxSamp = 3
  MaxCov = 1
SPECIFICATION Spec
CHECK_DEADLOCK FALSE
INVARIANT LabelsOK
INVARIANT AscendingOK
INVARIANT EveryIdOnce
INVARIANT LawsNormalised
INVARIANT Emit
