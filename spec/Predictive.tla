------------------------------ MODULE Predictive ------------------------------
(***************************************************************************)
(* Tables returned by the predictive models (property C15, labelling part): *)
(* every value is labelled with its sample ID, time and observable; times   *)
(* ascend within (ID, observable); covariates and dose events are added     *)
(* when requested.                                                          *)
(*                                                                         *)
(* A request: nOut outputs, a sequence of requested times (unsorted,        *)
(* repeats allowed), nSamp samples, nCov covariates, withRegimen, and the    *)
(* kind of predictive model.  The specification defines the bag of labels    *)
(* <<ID, time, observable>> the table must contain and the number of dose    *)
(* rows; Mech transcribes the two table constructions found in chi (nested  *)
(* loops output / time / ID, and flattening of an (output, time, sample)     *)
(* array) and TLC checks they produce exactly the declared bag.             *)
(***************************************************************************)
EXTENDS Naturals, Sequences, FiniteSets, TLC, Json, SequencesExt, FiniteSetsExt, Bags

CONSTANTS MaxOut, TimeDom, MaxTimes, MaxSamp, MaxCov
VARIABLES nOut, times, nSamp, nCov, withRegimen, kind, phase
vars == <<nOut, times, nSamp, nCov, withRegimen, kind, phase>>
Checked == phase = "checked"
\* "posteriorpop": a posterior predictive model over a POPULATION predictive model (the posterior holds population parameters)
ModelKinds == {"predictive", "population", "prior", "posterior", "pam", "posteriorpop"}

PR_Rng(s) == {s[i] : i \in DOMAIN s}
PR_BagOfSeq(s) == [e \in PR_Rng(s) |-> Cardinality({i \in DOMAIN s : s[i] = e})]
PR_Flat(ss) == FoldLeft(LAMBDA acc, x : acc \o x, <<>>, ss)
Sorted == SortSeq(times, <)
NT == Len(times)

\* ---- Decl -------------------------------------------------------------------------------
ValueLabels == {<<id, Sorted[j], o>> : id \in 1..nSamp, j \in 1..NT, o \in 1..nOut}
DeclBag == [l \in ValueLabels |-> Cardinality({j \in 1..NT : Sorted[j] = l[2]})]
NValueRows == nSamp * NT * nOut
\* covariates: one row per covariate and sample ID, without a time (population models only)
CovLabels == IF kind = "population" THEN {<<id, 0, 100 + c>> : id \in 1..nSamp, c \in 1..nCov} ELSE {}

\* ---- Mech -------------------------------------------------------------------------------
\* PredictiveModel.sample: for output: for time: rows for all IDs
LoopsOTI == PR_Flat([o \in 1..nOut |-> PR_Flat([j \in 1..NT |-> [id \in 1..nSamp |-> <<id, Sorted[j], o>>]])])
\* PopulationPredictiveModel.sample: flatten of arrays of shape (n_outputs, n_times, n_samples)
FlatOTS == [q \in 1..NValueRows |->
   LET o == ((q - 1) \div (NT * nSamp)) + 1
       j == (((q - 1) \div nSamp) % NT) + 1
       s == ((q - 1) % nSamp) + 1
   IN <<s, Sorted[j], o>>]
\* prior / posterior / averaged models: for sample ID: for output: rows for all times
LoopsIOT == PR_Flat([id \in 1..nSamp |-> PR_Flat([o \in 1..nOut |-> [j \in 1..NT |-> <<id, Sorted[j], o>>]])])
MechSeq == CASE kind = "predictive" -> LoopsOTI [] kind = "population" -> FlatOTS [] OTHER -> LoopsIOT

LabelsOK == Checked => PR_BagOfSeq(MechSeq) = DeclBag /\ Len(MechSeq) = NValueRows
\* times ascend within (ID, observable) in row order
AscendingOK == Checked => \A a, b \in DOMAIN MechSeq :
   (a < b /\ MechSeq[a][1] = MechSeq[b][1] /\ MechSeq[a][3] = MechSeq[b][3]) => MechSeq[a][2] <= MechSeq[b][2]
EveryIdOnce == Checked => \A id \in 1..nSamp : \A o \in 1..nOut :
   Cardinality({q \in DOMAIN MechSeq : MechSeq[q][1] = id /\ MechSeq[q][3] = o}) = NT

\* ---- provenance of posterior and averaged predictive samples (checked by the replayer's law stage) ---------------
\* A posterior holds NCh chains x NDr draws of a complete parameter set for each individual.  One sample = one row
\* <<chain, draw>> of the selected individual, every row with the same weight; the averaged model first chooses a member
\* model with probability proportional to its weight.  Probabilities are <<numerator, denominator>> pairs.
PosteriorRows(nch, ndr) == (1..nch) \X (1..ndr)
PosteriorLaw(nch, ndr) == [r \in PosteriorRows(nch, ndr) |-> <<1, nch * ndr>>]
AveragedLaw(w, nch, ndr) == [mr \in (DOMAIN w) \X PosteriorRows(nch, ndr) |->
                               <<w[mr[1]], FoldLeft(LAMBDA a, x : a + x, 0, w) * nch * ndr>>]
LawsNormalised ==
  /\ FoldSet(LAMBDA r, a : a + PosteriorLaw(3, 4)[r][1], 0, PosteriorRows(3, 4)) = PosteriorLaw(3, 4)[<<1, 1>>][2]
  /\ LET L == AveragedLaw(<<2, 1>>, 3, 4) IN FoldSet(LAMBDA r, a : a + L[r][1], 0, DOMAIN L) = L[<<1, <<1, 1>>>>][2]

Init == /\ nOut \in 1..MaxOut /\ nSamp \in 1..MaxSamp /\ nCov \in 0..MaxCov /\ withRegimen \in BOOLEAN
        /\ kind \in ModelKinds /\ (kind # "population" => nCov = 0)
        /\ times \in UNION {[1..k -> TimeDom] : k \in 1..MaxTimes} /\ phase = "raw"
Next == phase = "raw" /\ phase' = "checked" /\ UNCHANGED <<nOut, times, nSamp, nCov, withRegimen, kind>>
Spec == Init /\ [][Next]_vars

Config == [nout |-> nOut, times |-> times, sorted |-> Sorted, nsamp |-> nSamp, ncov |-> nCov, regimen |-> withRegimen,
           kind |-> kind, labels |-> MechSeq, covlabels |-> CovLabels, nrows |-> NValueRows]
Emit == Checked => PrintT("@@" \o ToJson(Config))
=============================================================================
