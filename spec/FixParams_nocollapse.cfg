CONSTANTS
  Names <- MCNames3
  Foreign = {"z"}
  Values = {"x", "y"}
  MaxOps = 6
  Design = "nocollapse"
SPECIFICATION Spec
VIEW View
CHECK_DEADLOCK FALSE
INVARIANT MaskIsDomain
INVARIANT BufferHoldsValues
INVARIANT Wrapped
INVARIANT CountsOK
INVARIANT OrderIndependent
INVARIANT SubstitutionOK
PROPERTY Reversible
