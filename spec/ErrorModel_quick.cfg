CONSTANTS
  MaxObs = 3
  MaxWidth = 2
SPECIFICATION Spec
CHECK_DEADLOCK FALSE
INVARIANT PointwiseIsTotal
INVARIANT GradLength
INVARIANT GradOrder
INVARIANT Emit
