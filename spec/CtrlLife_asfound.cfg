CONSTANTS
  MaxIds = 3
  MaxOps = 6
  PopMenu <- MCMenuAll
  PriorRule = "asfound"
SPECIFICATION Spec
VIEW View
CHECK_DEADLOCK FALSE
INVARIANT PriorAgrees
INVARIANT FixedExist
INVARIANT PopFits
INVARIANT NoDuplicates
