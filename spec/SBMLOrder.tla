------------------------------ MODULE SBMLOrder ------------------------------
(***************************************************************************)
(* chi.SBMLModel: published parameter order versus the solver's own order  *)
(* (property C09).                                                         *)
(*                                                                         *)
(* Names are abstracted to their alphabetical RANK: state r is the r-th    *)
(* state name in alphabetical order, constant k the k-th literal constant. *)
(* A model definition declares the states in some order decl (decl[j] =    *)
(* rank of the j-th declared state) -- that is the order the ODE solver    *)
(* uses for its state vector -- and the constants in some order cdecl.     *)
(*                                                                         *)
(* Published parameters: <<state 1, .., state nS, const 1, .., const nC>>.  *)
(* The i-th entry of a parameter vector must reach the i-th published      *)
(* name; the sensitivity request lists init(state r) then constants, for   *)
(* the FREE parameters only, in the published order.                       *)
(*                                                                         *)
(* Mech transcribes _set_number_and_names / _set_state:                    *)
(*    order_after_sort = argsort(names in declaration order)               *)
(*    original_order   = argsort(order_after_sort)                         *)
(*    solver_state     = parameters[original_order]                        *)
(* Variant "asfound" is that code; variant "single_argsort" uses           *)
(* order_after_sort directly (identical for <= 2 states, which is all the  *)
(* model library has; wrong for a 3-cycle) and must be refuted.            *)
(***************************************************************************)
EXTENDS Naturals, Sequences, FiniteSets, TLC, Json, SequencesExt, FiniteSetsExt

CONSTANTS MaxStates, MaxConsts, MaxOut, MaxFixed, Variant
VARIABLES nS, nC, decl, cdecl, outs, fixed, phase
vars == <<nS, nC, decl, cdecl, outs, fixed, phase>>
Checked == phase = "checked"

Perms(n) == {p \in [1..n -> 1..n] : \A i, j \in 1..n : i # j => p[i] # p[j]}
SO_Rng(s) == {s[i] : i \in DOMAIN s}

\* argsort of a sequence of distinct naturals: p[i] = index of the i-th smallest element
Argsort(s) == [i \in DOMAIN s |-> CHOOSE j \in DOMAIN s : Cardinality({k \in DOMAIN s : s[k] < s[j]}) = i - 1]

\* ---- Decl ---------------------------------------------------------------------
NPar == nS + nC
\* value code of the published parameter at position k is k itself (pairwise distinct values)
V(k) == k
\* what the solver must receive
DeclSolverState == [j \in 1..nS |-> V(decl[j])]            \* j-th declared state gets the value of its rank
DeclConstValue  == [k \in 1..nC |-> V(nS + k)]            \* constant of rank k
Free == SelectSeq([k \in 1..NPar |-> k], LAMBDA k : k \notin fixed)
\* sensitivity request: <<"init", r>> for states, <<"const", k>> for constants, free ones, published order
DeclSensRequest == [q \in DOMAIN Free |-> IF Free[q] <= nS THEN <<"init", Free[q]>> ELSE <<"const", Free[q] - nS>>]

\* ---- Mech ---------------------------------------------------------------------
OrderAfterSort == Argsort(decl)
OriginalOrder  == IF Variant = "single_argsort" THEN OrderAfterSort ELSE Argsort(OrderAfterSort)
MechSolverState == [j \in 1..nS |-> V(OriginalOrder[j])]    \* parameters[original_order]
\* enable_sensitivities: the first n_states published names are wrapped in init(.)
MechSensRequest == LET all == [k \in 1..NPar |-> IF k <= nS THEN <<"init", k>> ELSE <<"const", k - nS>>]
                   IN [q \in DOMAIN Free |-> all[Free[q]]]

StateAssignmentOK == Checked => MechSolverState = DeclSolverState
SensRequestOK     == Checked => MechSensRequest = DeclSensRequest
\* every state receives exactly one entry and every entry of the state block is used
AssignmentBijective == Checked => SO_Rng(MechSolverState) = {V(k) : k \in 1..nS}
OutputsOK == Checked => \A i, j \in DOMAIN outs : i # j => outs[i] # outs[j]

Init == /\ nS \in 1..MaxStates /\ nC \in 1..MaxConsts
        /\ decl \in Perms(nS) /\ cdecl \in Perms(nC)
        /\ \E n \in 1..MaxOut : outs \in {o \in [1..n -> 0..nS] : \A i, j \in 1..n : i # j => o[i] # o[j]}
        /\ fixed \in UNION {kSubset(k, 1..(nS + nC)) : k \in 0..MaxFixed}
        /\ phase = "raw"
Next == phase = "raw" /\ phase' = "checked" /\ UNCHANGED <<nS, nC, decl, cdecl, outs, fixed>>
Spec == Init /\ [][Next]_vars

Config == [ns |-> nS, nc |-> nC, decl |-> decl, cdecl |-> cdecl, outs |-> outs, fixed |-> fixed,
           solverstate |-> DeclSolverState, constvalue |-> DeclConstValue, sensrequest |-> DeclSensRequest,
           free |-> Free]
Emit == Checked => PrintT("@@" \o ToJson(Config))
=============================================================================
