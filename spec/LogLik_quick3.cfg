CONSTANTS
  MaxOut = 3
  TimeDom = {0, 1}
  MaxLen = 2
  NMech = 2
  Variant = "repaired"
  KindMode = "cyclic"
  MaxCalls = 3
SPECIFICATION Spec
CONSTRAINT Depth
VIEW View
CHECK_DEADLOCK FALSE
INVARIANT TypeOK
INVARIANT ExactlyOnce
INVARIANT BagIsDecl
INVARIANT PointwiseSum
INVARIANT SlicesPartition
INVARIANT EvaluableInv
INVARIANT SolveOnce
INVARIANT GradIsDecl
INVARIANT HistoryFree
INVARIANT Emit
