CONSTANTS
  MaxPer = 2
  MaxDim = 2
  MaxCov = 2
  MaxIds = 2
  BigDims = {9, 12}
  MaxSel = 3
SPECIFICATION Spec
CHECK_DEADLOCK FALSE
INVARIANT MechIsDecl
INVARIANT Unselected
INVARIANT NamesBijective
INVARIANT Transpose
INVARIANT Emit
