CONSTANTS
  MaxOut = 3
  TimeDom = {1, 2}
  MaxTimes = 2
  MaxSamp = 2
  MaxCov = 0
SPECIFICATION Spec
CHECK_DEADLOCK FALSE
INVARIANT LabelsOK
INVARIANT AscendingOK
INVARIANT EveryIdOnce
INVARIANT LawsNormalised
INVARIANT Emit
