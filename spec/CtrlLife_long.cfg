CONSTANTS
  MaxIds = 3
  MaxOps = 8
  PopMenu <- MCMenuAll
  PriorRule = "follow"
SPECIFICATION Spec
CHECK_DEADLOCK FALSE
INVARIANT PriorAgrees
INVARIANT FixedExist
INVARIANT PopFits
INVARIANT NoDuplicates
INVARIANT Emit
