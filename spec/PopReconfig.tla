----------------------------- MODULE PopReconfig -----------------------------
(***************************************************************************)
(* Reconfiguration histories of population models (property C17, history    *)
(* part; also C08 for the composite wrapper).  Extends PopLayout: the       *)
(* composition is fixed per behaviour, the number of individuals, the set   *)
(* of fixed population parameters and the naming flags change through       *)
(* public calls:                                                            *)
(*    set_n_ids(n)          heterogeneous sub-models change their number of *)
(*                          parameters; fixed parameters do not carry over  *)
(*                          when the count changes                          *)
(*    fix / release         by position of the population parameter         *)
(*    set_dim_names / set_parameter_names (custom <-> default)              *)
(* After every call the tables of PopLayout are rebuilt (Build, NameIt) and *)
(* all its invariants -- counts, ID marking, bijection, the transcribed     *)
(* index arithmetic -- must hold again; with default naming names are       *)
(* unique.  TLC explores all histories up to MaxOps calls.                  *)
(***************************************************************************)
EXTENDS PopLayout

CONSTANTS Menu, MaxOps, BadOps
VARIABLES dimCustom, parCustom, nrc, rhist
rcvars == <<subs, nIds, fixed, phase, tb, dimCustom, parCustom, nrc, rhist>>

HasH == \E j \in 1..Len(subs) : subs[j].kind = "H"
NTopFullOf(n) == PL_Sum([j \in 1..Len(subs) |-> (IF subs[j].kind = "P" THEN 1 ELSE IF subs[j].kind = "H" THEN n ELSE 2) * subs[j].nd * (1 + subs[j].cov)])

RC_Init == /\ subs \in Menu /\ nIds = 1 /\ fixed = {} /\ phase = "raw" /\ tb = <<>>
           /\ dimCustom = FALSE /\ parCustom = FALSE /\ nrc = 0 /\ rhist = <<>>

Rebuild == phase' = "raw" /\ tb' = <<>>
\* A sub-model has a history of its own BEFORE it is composed: leaf j was told set_n_ids(n).  A composite models ONE number
\* of individuals -- the one any of its parts was built for -- and every part follows it (the tables of PopLayout are
\* functions of the single nIds).  First step of a behaviour only; recorded as <<"pre", 10 * j + n>>.
RC_Pre(j, n) == /\ phase = "raw" /\ nrc = 0 /\ rhist = <<>> /\ nIds = 1 /\ n > 1 /\ j \in 1..Len(subs)
                /\ nIds' = n /\ rhist' = <<<<"pre", 10 * j + n>>>> /\ nrc' = 1
                /\ UNCHANGED <<subs, fixed, phase, tb, dimCustom, parCustom>>
RC_SetNIds(n) == /\ Built /\ nrc < MaxOps /\ n # nIds
                 /\ nIds' = n /\ fixed' = IF HasH THEN {} ELSE fixed
                 /\ Rebuild /\ rhist' = Append(rhist, <<"nids", n>>) /\ nrc' = nrc + 1
                 /\ UNCHANGED <<subs, dimCustom, parCustom>>
RC_Fix(k) == /\ Built /\ nrc < MaxOps /\ k \in 1..NTopFull /\ k \notin fixed /\ Cardinality(fixed) < 2
             /\ fixed' = fixed \cup {k} /\ Rebuild /\ rhist' = Append(rhist, <<"fix", k>>) /\ nrc' = nrc + 1
             /\ UNCHANGED <<subs, nIds, dimCustom, parCustom>>
RC_Release(k) == /\ Built /\ nrc < MaxOps /\ k \in fixed
                 /\ fixed' = fixed \ {k} /\ Rebuild /\ rhist' = Append(rhist, <<"release", k>>) /\ nrc' = nrc + 1
                 /\ UNCHANGED <<subs, nIds, dimCustom, parCustom>>
RC_DimNames(b) == /\ Built /\ nrc < MaxOps /\ b # dimCustom /\ fixed = {}
                  /\ dimCustom' = b /\ rhist' = Append(rhist, <<"dimnames", IF b THEN 1 ELSE 0>>) /\ nrc' = nrc + 1
                  /\ UNCHANGED <<subs, nIds, fixed, phase, tb, parCustom>>
RC_ParNames(b) == /\ Built /\ nrc < MaxOps /\ b # parCustom
                  /\ parCustom' = b /\ rhist' = Append(rhist, <<"parnames", IF b THEN 1 ELSE 0>>) /\ nrc' = nrc + 1
                  /\ UNCHANGED <<subs, nIds, fixed, phase, tb, dimCustom>>

\* A call that is REJECTED (set_dim_names / set_parameter_names with too few names, set_n_ids(0)) has no effect at all:
\* nothing of the state changes, only the history records it (<<"bad", kind>>).  At most one per behaviour (BadOps).
RC_Bad(k) == /\ BadOps /\ Built /\ nrc < MaxOps /\ \A i \in DOMAIN rhist : rhist[i][1] # "bad"
             /\ rhist' = Append(rhist, <<"bad", k>>) /\ nrc' = nrc + 1
             /\ UNCHANGED <<subs, nIds, fixed, phase, tb, dimCustom, parCustom>>

RC_Next == \/ (Build \/ NameIt) /\ UNCHANGED <<dimCustom, parCustom, nrc, rhist>>
           \/ \E n \in 1..MaxIds : RC_SetNIds(n)
           \/ \E j \in 1..3, n \in 2..MaxIds : RC_Pre(j, n)
           \/ \E k \in 1..3 : RC_Bad(k)
           \/ \E k \in 1..12 : RC_Fix(k) \/ RC_Release(k)
           \/ \E b \in BOOLEAN : RC_DimNames(b) \/ RC_ParNames(b)
RC_Spec == RC_Init /\ [][RC_Next]_rcvars
RC_View == <<subs, nIds, fixed, phase, tb, dimCustom, parCustom>>

\* fixed positions always name existing population parameters
FixedInRange == Built => fixed \subseteq 1..NTopFull
DefaultUnique == (Built /\ ~dimCustom /\ ~parCustom) => Cardinality({<<Ids[k], Names[k]>> : k \in 1..NParams}) = NParams
RC_Emit == (Built /\ nrc = MaxOps) => PrintT("@@" \o ToJson([subs |-> subs, hist |-> rhist, nids |-> nIds, fixed |-> fixed,
              nbottom |-> NBottom, ntop |-> NTop, ntopfull |-> NTopFull, names |-> Names, ids |-> Ids,
              dimcustom |-> dimCustom, parcustom |-> parCustom, topnamesfull |-> [k \in 1..NTopFull |-> TopNameFull(k)],
              layout |-> Layout, topfull |-> TopFull, ndim |-> NDim, ncov |-> NCov]))
=============================================================================
