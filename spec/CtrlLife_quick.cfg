CONSTANTS
  MaxIds = 3
  MaxOps = 6
  PopMenu <- MCMenuAll
  PriorRule = "follow"
SPECIFICATION Spec
VIEW View
CHECK_DEADLOCK FALSE
INVARIANT PriorAgrees
INVARIANT FixedExist
INVARIANT PopFits
INVARIANT NoDuplicates
