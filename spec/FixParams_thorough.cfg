CONSTANTS
  Names <- MCNames4
  Foreign = {}
  Values = {"x", "y", "w"}
  MaxOps = 6
SPECIFICATION Spec
VIEW View
CHECK_DEADLOCK FALSE
INVARIANT MaskIsDomain
INVARIANT BufferHoldsValues
INVARIANT Wrapped
INVARIANT CountsOK
INVARIANT OrderIndependent
INVARIANT SubstitutionOK
PROPERTY Reversible
