------------------------------- MODULE LogLik -------------------------------
(***************************************************************************)
(* chi.LogLikelihood: the individual log-likelihood (property C01, the     *)
(* single-individual parts of C03, C17, C19).                              *)
(*                                                                         *)
(* A configuration is one non-decreasing time grid per output (ties        *)
(* allowed -- the constructor accepts them), one error-model kind per      *)
(* output and NMech mechanistic parameters.  The specification never       *)
(* computes a density: the denotation of an evaluation is the BAG OF TERMS *)
(* that is summed, a term being "density f of observation <<o,n>> given    *)
(* the prediction of output o at time t with error parameters slice(o)".   *)
(*                                                                         *)
(* Two layers:                                                             *)
(*   Decl  -- what the property states (pairing by output and time),       *)
(*   Mech  -- the mechanism of chi/_log_pdfs.py transcribed: union grid,   *)
(*            per-output selection, positional pairing, running slices,    *)
(*            gradient scatter.  Variant = "asfound" is the boolean-mask   *)
(*            selection with the array_equal shortcut found at the pinned  *)
(*            commit; Variant = "repaired" is the index selection.         *)
(* TLC checks Mech => Decl for every configuration and every history of    *)
(* evaluation calls (the sensitivity switch is the hidden state).          *)
(***************************************************************************)
EXTENDS Naturals, Sequences, FiniteSets, TLC, Json, SequencesExt, FiniteSetsExt, Bags

CONSTANTS MaxOut,    \* maximal number of outputs
          TimeDom,   \* set of admissible (integer) times
          MaxLen,    \* maximal number of observations per output
          NMech,     \* number of mechanistic parameters
          Variant,   \* "asfound" | "repaired"
          KindMode,  \* "all": every assignment of kinds; "cyclic": rotations of <<G,M,C,L>>
          MaxCalls   \* depth bound on evaluation histories

VARIABLES grid,      \* [1..nOut -> non-decreasing Seq(TimeDom)]
          kind,      \* [1..nOut -> {"G","M","C","L"}]
          sens,      \* hidden: sensitivity switch of the owned mechanistic model
          last,      \* observation of the last evaluation (record)
          calls      \* number of evaluations so far (history length)

vars == <<grid, kind, sens, last, calls>>

KindSeq == <<"G", "M", "C", "L">>
Kinds   == {"G", "M", "C", "L"}
Width(k) == IF k = "C" THEN 2 ELSE 1
ErrNames(k) == CASE k = "G" -> <<"Sigma">>
                 [] k = "M" -> <<"Sigma rel.">>
                 [] k = "C" -> <<"Sigma base", "Sigma rel.">>
                 [] k = "L" -> <<"Sigma log">>

Outs == DOMAIN grid
NOut == Len(grid)

LL_NonDecr(s) == \A i \in 1..(Len(s) - 1) : s[i] <= s[i + 1]
\* an output may have NO observation at all (an unbalanced design: the problem controller builds such likelihoods for
\* individuals who were not measured for one of the mapped observables); its error model still owns its slice
LL_Grids      == {g \in UNION {[1..k -> TimeDom] : k \in 0..MaxLen} : LL_NonDecr(g)}
LL_Rng(s)     == {s[i] : i \in DOMAIN s}
LL_BagOfSeq(s) == [e \in LL_Rng(s) |-> Cardinality({i \in DOMAIN s : s[i] = e})]
LL_Flatten(ss) == FoldLeft(LAMBDA acc, x : acc \o x, <<>>, ss)
LL_SumSeq(s)   == FoldLeft(LAMBDA acc, x : acc + x, 0, s)

-----------------------------------------------------------------------------
(* Layout of the parameter vector: mechanistic parameters, then one slice  *)
(* per output in output order.                                             *)
NErr(o)    == Width(kind[o])
Start(o)   == LL_SumSeq([p \in 1..(o - 1) |-> NErr(p)])           \* 0-based offset inside the error block
Slice(o)   == [j \in 1..NErr(o) |-> NMech + Start(o) + j]         \* absolute positions
NParams    == NMech + LL_SumSeq([o \in 1..NOut |-> NErr(o)])
NObs       == LL_SumSeq([o \in 1..NOut |-> Len(grid[o])])

MechName(k) == "P" \o ToString(k)
OutName(o)  == "Y" \o ToString(o)
ErrName(o, j) == IF NOut > 1 THEN OutName(o) \o " " \o ErrNames(kind[o])[j]
                 ELSE ErrNames(kind[o])[j]
Names == [k \in 1..NMech |-> MechName(k)]
         \o LL_Flatten([o \in 1..NOut |-> [j \in 1..NErr(o) |-> ErrName(o, j)]])

-----------------------------------------------------------------------------
(* Decl: what the property says is summed.                                 *)
Term(o, n, t) == [o |-> o, n |-> n, at |-> t, f |-> kind[o], par |-> Slice(o)]
DeclSeq(o)    == [n \in DOMAIN grid[o] |-> Term(o, n, grid[o][n])]
DeclPointwise == LL_Flatten([o \in 1..NOut |-> DeclSeq(o)])
DeclBag       == LL_BagOfSeq(DeclPointwise)
\* derivative atoms: position k receives D(term) for every term that depends on position k
DeclGrad      == [k \in 1..NParams |->
                    IF k <= NMech THEN DeclBag
                    ELSE LL_BagOfSeq(SelectSeq(DeclPointwise, LAMBDA t : k \in LL_Rng(t.par)))]

-----------------------------------------------------------------------------
(* Mech: chi's mechanism.                                                  *)
UnionSeq == SetToSortSeq(UNION {LL_Rng(grid[o]) : o \in Outs}, <)     \* solved once for all outputs
IndexIn(s, v) == CHOOSE i \in DOMAIN s : s[i] = v

\* as found: boolean mask over the union grid, all-true shortcut when the grid equals the union
MaskAsFound(o) == IF grid[o] = UnionSeq
                  THEN [u \in DOMAIN UnionSeq |-> TRUE]
                  ELSE [u \in DOMAIN UnionSeq |-> \E n \in DOMAIN grid[o] : grid[o][n] = UnionSeq[u]]
SelAsFound(o)  == SelectSeq([u \in DOMAIN UnionSeq |-> u], LAMBDA u : MaskAsFound(o)[u])
\* repaired: one union index per observation (ties select the same entry twice)
SelRepaired(o) == [n \in DOMAIN grid[o] |-> IndexIn(UnionSeq, grid[o][n])]
Sel(o)         == IF Variant = "asfound" THEN SelAsFound(o) ELSE SelRepaired(o)

\* the error model compares model output and observations pairwise and raises on unequal lengths
Evaluable == \A o \in Outs : Len(Sel(o)) = Len(grid[o])

MechSeq(o)    == [n \in DOMAIN grid[o] |-> Term(o, n, UnionSeq[Sel(o)[n]])]   \* positional pairing
MechPointwise == LL_Flatten([o \in 1..NOut |-> MechSeq(o)])
MechBag       == LL_BagOfSeq(MechPointwise)

\* gradient scatter of LogLikelihood.evaluateS1: running start/end over the outputs
RECURSIVE Scatter(_, _, _)
Scatter(o, start, acc) ==
  IF o > NOut THEN acc
  ELSE LET end  == start + NErr(o)
           mine == LL_BagOfSeq(MechSeq(o))                  \* what this output's error model scored
           acc2 == [k \in 1..NParams |->
                      IF k <= NMech THEN acc[k] (+) mine                     \* s[:n_mech]
                      ELSE IF k > NMech + start /\ k <= NMech + end THEN acc[k] (+) mine  \* s[n_mech:]
                      ELSE acc[k]]
       IN Scatter(o + 1, end, acc2)
MechGrad == Scatter(1, 0, [k \in 1..NParams |-> EmptyBag])

-----------------------------------------------------------------------------
NoEval == [op |-> "none", bag |-> EmptyBag, seq |-> <<>>, grad |-> <<>>, solved |-> <<>>, sensDuring |-> FALSE]

Init == /\ \E n \in 1..MaxOut :
             /\ grid \in [1..n -> LL_Grids]
             /\ \E o \in 1..n : Len(grid[o]) > 0
             /\ IF KindMode = "all" THEN kind \in [1..n -> Kinds]
                ELSE \E r \in 0..3 : kind = [o \in 1..n |-> KindSeq[((r + o - 1) % 4) + 1]]
        /\ sens = FALSE /\ last = NoEval /\ calls = 0

\* __call__: switches sensitivities off, solves once on the union grid, sums per output
LL_Call ==
  /\ Evaluable
  /\ sens' = FALSE
  /\ last' = [op |-> "call", bag |-> MechBag, seq |-> <<>>, grad |-> <<>>,
              solved |-> <<UnionSeq>>, sensDuring |-> FALSE]
  /\ calls' = calls + 1 /\ UNCHANGED <<grid, kind>>

\* compute_pointwise_ll
LL_Pointwise ==
  /\ Evaluable
  /\ sens' = FALSE
  /\ last' = [op |-> "pointwise", bag |-> MechBag, seq |-> MechPointwise, grad |-> <<>>,
              solved |-> <<UnionSeq>>, sensDuring |-> FALSE]
  /\ calls' = calls + 1 /\ UNCHANGED <<grid, kind>>

\* evaluateS1: switches sensitivities on
LL_EvalS1 ==
  /\ Evaluable
  /\ sens' = TRUE
  /\ last' = [op |-> "S1", bag |-> MechBag, seq |-> <<>>, grad |-> MechGrad,
              solved |-> <<UnionSeq>>, sensDuring |-> TRUE]
  /\ calls' = calls + 1 /\ UNCHANGED <<grid, kind>>

Next == LL_Call \/ LL_Pointwise \/ LL_EvalS1
Spec == Init /\ [][Next]_vars

Depth == calls <= MaxCalls
View  == <<grid, kind, sens, last>>   \* the history length is not part of the state

-----------------------------------------------------------------------------
(* Properties (C01; gradient layout for C03; counts for C17; history       *)
(* independence for C19).                                                  *)
TypeOK == /\ \A o \in Outs : LL_NonDecr(grid[o]) /\ Len(grid[o]) \in 0..MaxLen
          /\ sens \in BOOLEAN

\* every measurement contributes exactly once and is paired with its own output and time
ExactlyOnce == last.op # "none" =>
                 \A o \in Outs : \A n \in DOMAIN grid[o] :
                    /\ CopiesIn(Term(o, n, grid[o][n]), last.bag) = 1
                    /\ Cardinality({t \in BagToSet(last.bag) : t.o = o /\ t.n = n}) = 1
BagIsDecl == last.op # "none" => last.bag = DeclBag /\ BagCardinality(last.bag) = NObs

\* the pointwise values listed output by output in time order add up to the total
PointwiseSum == last.op = "pointwise" =>
                  /\ LL_BagOfSeq(last.seq) = last.bag
                  /\ last.seq = DeclPointwise
                  /\ Len(last.seq) = NObs

\* the error slices are consecutive, disjoint and cover NMech+1 .. NParams
SlicesPartition ==
  /\ \A o \in Outs : \A j \in 1..NErr(o) : Slice(o)[j] \in (NMech + 1)..NParams
  /\ \A o1, o2 \in Outs : o1 # o2 => LL_Rng(Slice(o1)) \cap LL_Rng(Slice(o2)) = {}
  /\ UNION {LL_Rng(Slice(o)) : o \in Outs} = (NMech + 1)..NParams
  /\ Len(Names) = NParams

\* an object constructed without error can be evaluated, by every kind of evaluation
EvaluableInv == Evaluable

\* one solve per evaluation, on the union grid (sorted, duplicate free, exactly the observed times)
SolveOnce == last.op # "none" =>
               /\ Len(last.solved) = 1
               /\ LL_Rng(last.solved[1]) = UNION {LL_Rng(grid[o]) : o \in Outs}
               /\ \A i \in 1..(Len(last.solved[1]) - 1) : last.solved[1][i] < last.solved[1][i + 1]

\* gradient assembly = declarative gradient, position by position (C03, individual level)
GradIsDecl == last.op = "S1" => last.grad = DeclGrad /\ Len(last.grad) = NParams

\* the result of an evaluation does not depend on what was evaluated before (C19): the
\* observation is a function of the configuration and the operation only
HistoryFree == last.op # "none" =>
                 last = [op |-> last.op, bag |-> DeclBag,
                         seq |-> IF last.op = "pointwise" THEN DeclPointwise ELSE <<>>,
                         grad |-> IF last.op = "S1" THEN DeclGrad ELSE <<>>,
                         solved |-> <<UnionSeq>>, sensDuring |-> (last.op = "S1")]

-----------------------------------------------------------------------------
(* Export: one JSON record per configuration with everything the           *)
(* specification predicts, consumed by harness/replay_loglik.py.           *)
HasTie(o)  == \E i \in 1..(Len(grid[o]) - 1) : grid[o][i] = grid[o][i + 1]
Config ==
  [grid    |-> grid,
   kind    |-> kind,
   nmech   |-> NMech,
   union   |-> UnionSeq,
   sel     |-> [o \in 1..NOut |-> SelRepaired(o)],
   slices  |-> [o \in 1..NOut |-> Slice(o)],
   nparams |-> NParams,
   nobs    |-> NObs,
   names   |-> Names,
   pointwise |-> [i \in DOMAIN DeclPointwise |-> <<DeclPointwise[i].o, DeclPointwise[i].n, DeclPointwise[i].at>>],
   gradsupp  |-> [k \in 1..NParams |-> {<<t.o, t.n>> : t \in BagToSet(DeclGrad[k])}],
   tie     |-> \E o \in Outs : HasTie(o),
   shortcut |-> \E o \in Outs : grid[o] = UnionSeq]
Emit == (calls = 0) => PrintT("@@" \o ToJson(Config))
=============================================================================
