------------------------------ MODULE FixParams ------------------------------
(***************************************************************************)
(* Fixing parameters (property C08; the Reduced* wrappers of error,        *)
(* mechanistic and population models and the composites that wrap their    *)
(* sub-models on demand).                                                  *)
(*                                                                         *)
(* ABSTRACT state: fixed, a partial map from parameter names to values.    *)
(* HIDDEN state of the code: a boolean mask over the original parameters,  *)
(* a value buffer into which the free values are written before every      *)
(* delegated call, and whether the sub-model is currently wrapped (the      *)
(* composites wrap on demand and unwrap when nothing is fixed).            *)
(*                                                                         *)
(* Fix(d) offers a dictionary d: name -> value | None | absent.  Keys that  *)
(* do not name a parameter of this object are ignored.                     *)
(*   Decl  fixed' = fixed overridden by the non-None entries of d, minus    *)
(*         the None entries;                                               *)
(*   Mech  the mask/buffer loop of fix_parameters followed by the collapse  *)
(*         to "no mask" when everything is free.                           *)
(* TLC checks Mech = Decl in every reachable state, that the state depends  *)
(* only on the resulting map (order independence: the VIEW is the map),     *)
(* reversibility and the substitution performed by an evaluation.          *)
(***************************************************************************)
EXTENDS Naturals, Sequences, FiniteSets, TLC, Json, SequencesExt, FiniteSetsExt

CONSTANTS Names,      \* sequence of the object's own parameter names (original order)
          Foreign,    \* set of names that may occur as keys but do not belong to the object
          Values,     \* set of values a parameter may be fixed to
          MaxOps,
          Design      \* "code": what fix_parameters does.  Negative controls (refuted by TLC, see check_c08):
                      \* "freshmask": every call starts from an empty mask, so earlier fixes are forgotten;
                      \* "nocollapse": the wrapper is kept when the last parameter is released
None   == "None"
Absent == "Absent"

VARIABLES fixed,     \* abstract: [subset of own names -> Values]
          mask,      \* hidden: [1..Len(Names) -> BOOLEAN], or <<>> when collapsed
          buffer,    \* hidden: [1..Len(Names) -> Values \cup {"junk"}]
          nops, lastd
vars == <<fixed, mask, buffer, nops, lastd>>

N == Len(Names)
Own == {Names[i] : i \in 1..N}
Keys == Own \cup Foreign
Dicts == [Keys -> Values \cup {None, Absent}]

\* ---- Decl ------------------------------------------------------------------------
DeclFix(f, d) == LET dom == ((DOMAIN f) \cup {n \in Own : d[n] \notin {None, Absent}}) \ {n \in Own : d[n] = None}
                 IN [n \in dom |-> IF d[n] \notin {None, Absent} THEN d[n] ELSE f[n]]
FreeNames(f) == SelectSeq(Names, LAMBDA n : n \notin DOMAIN f)
\* evaluation at a vector v over the free names (original order) is evaluation of the plain
\* object at the full vector Substitute(f, v)
FreeIndex(f, n) == CHOOSE i \in 1..Len(FreeNames(f)) : FreeNames(f)[i] = n
Substitute(f, v) == [i \in 1..N |-> IF Names[i] \in DOMAIN f THEN f[Names[i]] ELSE v[FreeIndex(f, Names[i])]]

\* ---- Mech ------------------------------------------------------------------------
Collapsed == mask = <<>>
MaskOrFresh == IF Collapsed \/ Design = "freshmask" THEN [i \in 1..N |-> FALSE] ELSE mask
BufOrFresh  == IF Collapsed \/ Design = "freshmask" THEN [i \in 1..N |-> "junk"] ELSE buffer
MechMask(d)   == [i \in 1..N |-> IF d[Names[i]] = Absent THEN MaskOrFresh[i] ELSE d[Names[i]] # None]
MechBuffer(d) == [i \in 1..N |-> IF d[Names[i]] = Absent THEN BufOrFresh[i]
                                 ELSE IF d[Names[i]] = None THEN "junk" ELSE d[Names[i]]]
AllFree(m) == \A i \in 1..N : ~m[i]

Fix(d) ==
  /\ nops < MaxOps
  /\ fixed' = DeclFix(fixed, d)
  /\ IF AllFree(MechMask(d)) /\ Design # "nocollapse"
     THEN mask' = <<>> /\ buffer' = <<>>                      \* collapse: the plain model is used again
     ELSE mask' = MechMask(d) /\ buffer' = MechBuffer(d)
  /\ nops' = nops + 1 /\ lastd' = d

Init == fixed = <<>> /\ mask = <<>> /\ buffer = <<>> /\ nops = 0 /\ lastd = [k \in Keys |-> Absent]
Next == \E d \in Dicts : Fix(d)
Spec == Init /\ [][Next]_vars
View == <<fixed, mask, buffer>>

\* ---- properties ----------------------------------------------------------------------
\* hidden state agrees with the abstract state
MaskIsDomain == IF Collapsed THEN DOMAIN fixed = {}
                ELSE \A i \in 1..N : mask[i] <=> Names[i] \in DOMAIN fixed
BufferHoldsValues == ~Collapsed => \A i \in 1..N : mask[i] => buffer[i] = fixed[Names[i]]
Wrapped == ~Collapsed <=> DOMAIN fixed # {}
\* names and counts list exactly the free parameters in their original order
CountsOK == Len(FreeNames(fixed)) = N - Cardinality(DOMAIN fixed)
\* order independence: the hidden state is a function of the abstract map (masked entries only)
OrderIndependent == ~Collapsed => mask = [i \in 1..N |-> Names[i] \in DOMAIN fixed]
\* substitution puts fixed values at their own positions and free values at theirs, in order
SubstitutionOK ==
  LET fr == FreeNames(fixed)
      v  == [i \in 1..Len(fr) |-> "free:" \o fr[i]]
      full == Substitute(fixed, v)
  IN \A i \in 1..N : full[i] = IF Names[i] \in DOMAIN fixed THEN fixed[Names[i]] ELSE "free:" \o Names[i]
\* releasing restores: fixing n to x and then to None gives the earlier map back (action property)
Reversible == [][\A n \in Own : (n \notin DOMAIN fixed /\ lastd'[n] \notin {None, Absent}) =>
                    DeclFix(fixed', [k \in Keys |-> IF k = n THEN None ELSE Absent]) =
                    DeclFix(fixed, [k \in Keys |-> IF k = n THEN Absent ELSE lastd'[k]])]_vars

\* ---- export: one record per transition ------------------------------------------------
EmitFix == PrintT("@@" \o ToJson([src |-> fixed, d |-> lastd', dst |-> fixed', free |-> FreeNames(fixed')]))
=============================================================================
