CONSTANTS
  NInst = 1
  Regs = {1, 2}
  OutSels = {0, 1, 2}
  OutSelsRen = {0, 1}
  ReAdmin = "keep"
  Design = "asfound"
  MaxOps = 16
SPECIFICATION Spec
VIEW View
CHECK_DEADLOCK FALSE
INVARIANT ProtocolFollowsRegimen
INVARIANT RunIsConsistent
INVARIANT NoSharing
INVARIANT Sequential
INVARIANT HistoryIndependence
INVARIANT RegimenNeedsRoute
