------------------------------- MODULE Filters -------------------------------
(***************************************************************************)
(* Population filters: deferred time orders (property C12).                *)
(*                                                                         *)
(* A filter holds measurements per (individual, observable, time point).    *)
(* sort_times(order) re-orders the time axis: afterwards the filter         *)
(* expects simulated measurements in the NEW order, i.e. position k of the  *)
(* input belongs to the time point that was at position order[k] before.    *)
(* A plain filter re-orders its own data.  A composed filter cannot (its    *)
(* data lives in the sub-filters, in the original concatenated order): it   *)
(* keeps a permutation and re-orders the SIMULATED values instead, and      *)
(* returns the sensitivities in the order of the input.                     *)
(*                                                                         *)
(*   Decl   T = accumulated permutation: input position k <-> original      *)
(*          time index T[k]; every measurement of original time j is        *)
(*          scored against the simulated column of original time j.         *)
(*   Mech   _time_order / _time_filter_order of the composed filter;        *)
(*          Variant "asfound": a second sort OVERWRITES the stored order,   *)
(*          Variant "repaired": it composes with the stored order.          *)
(***************************************************************************)
EXTENDS Naturals, Sequences, FiniteSets, TLC, Json, SequencesExt, FiniteSetsExt

CONSTANTS MaxTimes, MaxSorts, Variant
VARIABLES nT, T, mech, hist
vars == <<nT, T, mech, hist>>

Perms(n) == {p \in [1..n -> 1..n] : \A i, j \in 1..n : i # j => p[i] # p[j]}
Id(n) == [k \in 1..n |-> k]
Inv(p) == [j \in DOMAIN p |-> CHOOSE k \in DOMAIN p : p[k] = j]          \* argsort of a permutation

Init == nT \in 2..MaxTimes /\ T = Id(nT) /\ mech = <<>> /\ hist = <<>>

\* plain filter: data' [k] = data[order[k]]  =>  T'[k] = T[order[k]]
FL_SortTimes(order) ==
  /\ Len(hist) < MaxSorts
  /\ T' = [k \in 1..nT |-> T[order[k]]]
  /\ mech' = IF order = Id(nT) THEN mech                                   \* identity shortcut: nothing stored
             ELSE IF Variant = "asfound" \/ mech = <<>> THEN order
             ELSE [k \in 1..nT |-> mech[order[k]]]
  /\ hist' = Append(hist, order)
  /\ UNCHANGED nT
Next == \E order \in Perms(nT) : FL_SortTimes(order)
Spec == Init /\ [][Next]_vars
View == <<nT, T, mech>>

\* the composed filter feeds sub-filter time j (original order) with input column MechCol(j)
MechOrder == IF mech = <<>> THEN Id(nT) ELSE mech
MechCol(j) == Inv(MechOrder)[j]
\* declaratively, original time j sits at the input position k with T[k] = j
DeclCol(j) == Inv(T)[j]
PairingOK == \A j \in 1..nT : MechCol(j) = DeclCol(j)
\* sensitivities are returned in input order: position k holds d/d sim of original time T[k]
SensOrderOK == \A k \in 1..nT : MechOrder[k] = T[k]
TIsPermutation == T \in Perms(nT)

Emit == PrintT("@@" \o ToJson([nt |-> nT, hist |-> hist', t |-> T']))
=============================================================================
