--------------------------- MODULE Trace_CtrlLife ---------------------------
(***************************************************************************)
(* code -> spec for the life cycle of chi.ProblemModellingController       *)
(* (module CtrlLife states the same rules over a concrete universe of      *)
(* models; this module checks them on RECORDED executions with whatever    *)
(* models and data the driver used: the repository's own tests run on      *)
(* RefSim, the C14 data sets, the CtrlLife histories).                     *)
(*                                                                         *)
(* One event per top-level public call, logged after it returned or        *)
(* raised (harness/ctrl_recorder.py):                                      *)
(*   [e, c, err, names, n, prior, hasdata]                                 *)
(* e in {"init","setdata","setpop","fix","setprior","getpost","getpred"},  *)
(* c = controller, names / n = get_parameter_names() / get_n_parameters()  *)
(* after the call, prior = a log-prior is held, hasdata = data is held.    *)
(*                                                                         *)
(* Rules (first failing clause and its line are reported per trace):       *)
(*   Agree            n = Len(names)                                       *)
(*   FailedCallNoEffect   a call that raised changed neither names nor     *)
(*                    whether a prior is held                              *)
(*   PriorReset       fix_parameters / set_population_model drop the prior *)
(*   PriorFollowsData set_data drops the prior iff the names changed       *)
(*   PriorSet         set_log_prior holds a prior (of dimension n)         *)
(*   PosteriorNeeds   get_log_posterior succeeds only with data and prior  *)
(*   Stutter          get_log_posterior / get_predictive_model change      *)
(*                    nothing                                              *)
(*   PriorAgrees      a held prior was set for exactly the current names   *)
(***************************************************************************)
EXTENDS Naturals, Sequences, FiniteSets, TLC, Json, IOUtils

VARIABLES tid, l, st, verdict
tvars == <<tid, l, st, verdict>>

Traces == JsonDeserialize(IOEnv.TRACE_FILE)
Trace  == Traces[tid]
Ev     == Trace[l]

Fresh == [names |-> <<>>, prior |-> FALSE, pnames |-> <<>>, hasdata |-> FALSE]
Old(c) == IF c \in DOMAIN st THEN st[c] ELSE Fresh
Check(ok, clause, v) == IF ok THEN v ELSE IF v.clause = "" THEN [clause |-> clause, line |-> l] ELSE v

TInit == tid \in 1..Len(Traces) /\ l = 1 /\ st = <<>> /\ verdict = [clause |-> "", line |-> 0]

TStep ==
  /\ l <= Len(Trace) /\ l' = l + 1 /\ UNCHANGED tid
  /\ LET c == Ev.c
         o == Old(c)
         ok == ~Ev.err
         known == c \in DOMAIN st            \* (a controller first seen in mid-life has no history to compare with)
         pn == IF ok /\ Ev.e = "setprior" THEN Ev.names ELSE IF ~Ev.prior THEN <<>> ELSE IF known THEN o.pnames ELSE Ev.names
         new == [names |-> Ev.names, prior |-> Ev.prior, pnames |-> pn, hasdata |-> Ev.hasdata]
     IN /\ st' = [k \in (DOMAIN st) \cup {c} |-> IF k = c THEN new ELSE st[k]]
        /\ verdict' =
             Check(Ev.n = Len(Ev.names), "Agree",
             Check((known /\ Ev.err /\ Ev.e # "init") => (Ev.names = o.names /\ Ev.prior = o.prior), "FailedCallNoEffect",
             Check((ok /\ Ev.e \in {"fix", "setpop"}) => ~Ev.prior, "PriorReset",
             Check((known /\ ok /\ Ev.e = "setdata") => (IF Ev.names = o.names THEN Ev.prior = o.prior ELSE ~Ev.prior), "PriorFollowsData",
             Check((ok /\ Ev.e = "setprior") => Ev.prior, "PriorSet",
             Check((known /\ ok /\ Ev.e = "getpost") => (o.prior /\ o.hasdata), "PosteriorNeeds",
             Check((known /\ Ev.e \in {"getpost", "getpred"}) => (Ev.names = o.names /\ Ev.prior = o.prior /\ Ev.hasdata = o.hasdata), "Stutter",
             Check(Ev.prior => pn = Ev.names, "PriorAgrees", verdict))))))))

TSpec == TInit /\ [][TStep]_tvars
EmitVerdict == (l = Len(Trace) + 1) =>
   PrintT("@@" \o ToJson([tid |-> tid, clause |-> verdict.clause, line |-> verdict.line, events |-> Len(Trace)]))
=============================================================================
