----------------------------- MODULE ErrorModel -----------------------------
(***************************************************************************)
(* chi error models (property C04): support guards, pointwise = total,     *)
(* layout of the returned sensitivities.                                   *)
(*                                                                         *)
(* A case: kind \in {G, M, C, L} (Gaussian, multiplicative Gaussian,       *)
(* constant-and-multiplicative Gaussian, log-normal), number of             *)
(* observations n, width p of the supplied output-sensitivity matrix, a     *)
(* sign class per scale parameter and for the model outputs.                *)
(* The denotation of an evaluation is a bag of terms <<obs index>>; the     *)
(* CLASS of the result is "-inf" iff some scale parameter is non-positive   *)
(* (or, for the log-normal model, some output is non-positive), and the     *)
(* same class is returned by the three evaluation methods.  The            *)
(* sensitivity vector is <<mechanistic 1..p, error parameters 1..q>>:       *)
(* position k <= p collects D(term n) * S[n][k] for every observation n,    *)
(* position p + j the derivative w.r.t. error parameter j.                  *)
(***************************************************************************)
EXTENDS Naturals, Sequences, FiniteSets, TLC, Json, SequencesExt, FiniteSetsExt

CONSTANTS MaxObs, MaxWidth
VARIABLES kind, n, p, scaleSign, outSign, magnitude, phase
vars == <<kind, n, p, scaleSign, outSign, magnitude, phase>>
Checked == phase = "checked"

Kinds == {"G", "M", "C", "L"}
Q(k) == IF k = "C" THEN 2 ELSE 1
Signs == {"neg", "zero", "pos"}
\* "smallneg": some output is negative, but so small that the total standard deviation of every observation stays positive
OutSigns == {"pos", "somezero", "someneg", "smallneg"}

ClassOf == IF \E j \in 1..Q(kind) : scaleSign[j] # "pos" THEN "-inf"
           ELSE IF kind = "L" /\ outSign # "pos" THEN "-inf"
           ELSE "finite"
\* the documented densities are only defined for these inputs: positive total standard deviation -- always for the Gaussian
\* model (its standard deviation does not depend on the output), for the constant-and-multiplicative model also with
\* negative outputs as long as sigma_base + sigma_rel * output > 0
Defined == ClassOf = "-inf" \/ outSign = "pos" \/ kind = "G" \/ (kind = "C" /\ outSign = "smallneg")

Terms == [i \in 1..n |-> <<"obs", i>>]
TotalBag == {Terms[i] : i \in 1..n}
PointwiseSeq == Terms
GradLayout == [k \in 1..(p + Q(kind)) |-> IF k <= p THEN <<"mech", k>> ELSE <<"err", k - p>>]
GradSupport(k) == IF k <= p THEN {<<i, k>> : i \in 1..n} ELSE {<<i, 0>> : i \in 1..n}

PointwiseIsTotal == Checked => {PointwiseSeq[i] : i \in 1..n} = TotalBag /\ Len(PointwiseSeq) = n
GradLength == Checked => Len(GradLayout) = p + Q(kind)
GradOrder == Checked => /\ \A k \in 1..p : GradLayout[k] = <<"mech", k>>
                        /\ \A j \in 1..Q(kind) : GradLayout[p + j] = <<"err", j>>

Init == /\ kind \in Kinds /\ n \in 1..MaxObs /\ p \in 0..MaxWidth
        /\ scaleSign \in [1..Q(kind) -> Signs] /\ outSign \in OutSigns
        \* magnitude class of outputs and scales, and whether the series is long (hundreds of observations):
        \* "any length >= 1", "all positive scale parameters" in the property
        \* ("tiny": quantities in SI units -- outputs of order 1e-9 with scales of order 1e-10; any positive scale is a scale)
        /\ magnitude \in {"unit", "large", "small", "long_large", "long_small", "tiny"}
        /\ (magnitude # "unit" => (outSign = "pos" /\ \A j \in 1..Q(kind) : scaleSign[j] = "pos" /\ n = 1 /\ p = 0))
        /\ phase = "raw"
Next == phase = "raw" /\ phase' = "checked" /\ UNCHANGED <<kind, n, p, scaleSign, outSign, magnitude>>
Spec == Init /\ [][Next]_vars

Config == [kind |-> kind, n |-> n, p |-> p, scalesign |-> scaleSign, outsign |-> outSign, cls |-> ClassOf,
           defined |-> Defined, q |-> Q(kind), layout |-> GradLayout, magnitude |-> magnitude]
Emit == Checked => PrintT("@@" \o ToJson(Config))
=============================================================================
