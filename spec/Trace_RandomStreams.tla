------------------------- MODULE Trace_RandomStreams -------------------------
(***************************************************************************)
(* code -> spec for RandomStreams: the generator events recorded during    *)
(* one public sampling call (harness/recgen.py) are consumed one by one;   *)
(* the consumed-variate bag of RandomStreams is maintained with the same   *)
(* Consume operator and the stream properties are evaluated after every    *)
(* event.  Verdicts are total (first failing clause and line).             *)
(*                                                                         *)
(* Events:  Begin(seed_kind, gen_key, gen_pos)   seed argument of the call *)
(*          MakeGen(key) | Adopt(key) | Draw(key, pos, n)                  *)
(*          GlobalSeed(seed) | GlobalDraw(seeded, pos, n)                  *)
(***************************************************************************)
EXTENDS RandomStreams, IOUtils

VARIABLES tid, l, verdict, passedKey, passedPos
tvars == <<seedArg, gens, glob, used, sub, cur, tid, l, verdict, passedKey, passedPos>>

Traces == JsonDeserialize(IOEnv.TRACE_FILE)
Trace  == Traces[tid]
Ev     == Trace[l]

Check(ok, clause, v) == IF ok THEN v ELSE IF v.clause = "" THEN [clause |-> clause, line |-> l] ELSE v

TInit == /\ tid \in 1..Len(Traces) /\ l = 1
         /\ seedArg = "none" /\ gens = <<>> /\ glob = [key |-> <<"global", "unknown">>, pos |-> 0]
         /\ used = <<>> /\ sub = 1 /\ cur = 0
         /\ verdict = [clause |-> "", line |-> 0] /\ passedKey = <<>> /\ passedPos = 0

Step == l <= Len(Trace) /\ l' = l + 1 /\ UNCHANGED <<tid, gens, sub, cur>>

T_Begin == /\ Step /\ Ev.e = "Begin"
           /\ seedArg' = Ev.seed_kind /\ passedKey' = Ev.gen_key /\ passedPos' = Ev.gen_pos
           /\ UNCHANGED <<glob, used, verdict>>

T_Draw ==
  /\ Step /\ Ev.e = "Draw"
  /\ used' = Consume(used, Ev.key, Ev.pos, Ev.n)
  /\ LET u == used'
         fresh == Ev.key[1] = "fresh"
         reuse == \E v \in DOMAIN u : u[v] > 1
         restarted == seedArg = "gen" /\ Ev.key = passedKey /\ Ev.pos < passedPos
     IN verdict' = Check(seedArg = "int" => ~fresh, "Reproducible:fresh_generator",
                   Check(~reuse, "Independent:variate_reused",
                   Check(~restarted, "Advanced:generator_restarted", verdict)))
  /\ UNCHANGED <<seedArg, glob, passedKey, passedPos>>

T_GlobalSeed ==
  /\ Step /\ Ev.e = "GlobalSeed"
  /\ glob' = [key |-> <<"global", Ev.seed>>, pos |-> 0]
  /\ verdict' = Check(seedArg = "int" => Ev.seed # "unknown", "Reproducible:global_reseeded_from_entropy", verdict)
  /\ UNCHANGED <<seedArg, used, passedKey, passedPos>>

\* a saved state of the global generator is restored: the stream is back at the position where it was saved (what is drawn
\* next was drawn before -- Consume reports the re-use)
T_GlobalRestore ==
  /\ Step /\ Ev.e = "GlobalRestore"
  /\ glob' = [key |-> <<"global", Ev.seed>>, pos |-> Ev.pos]
  /\ UNCHANGED <<seedArg, used, verdict, passedKey, passedPos>>

T_GlobalDraw ==
  /\ Step /\ Ev.e = "GlobalDraw"
  /\ used' = Consume(used, glob.key, glob.pos, Ev.n)
  /\ glob' = [glob EXCEPT !.pos = @ + Ev.n]
  /\ LET u == used'
     IN verdict' = Check(seedArg = "int" => glob.key # <<"global", "unknown">>, "Reproducible:unseeded_global_draw",
                   Check(~(\E v \in DOMAIN u : u[v] > 1), "Independent:variate_reused", verdict))
  /\ UNCHANGED <<seedArg, passedKey, passedPos>>

T_Other == /\ Step /\ Ev.e \notin {"Begin", "Draw", "GlobalSeed", "GlobalDraw", "GlobalRestore"}
           /\ UNCHANGED <<seedArg, glob, used, verdict, passedKey, passedPos>>

TNext == T_Begin \/ T_Draw \/ T_GlobalSeed \/ T_GlobalRestore \/ T_GlobalDraw \/ T_Other
TSpec == TInit /\ [][TNext]_tvars
EmitVerdict == (l = Len(Trace) + 1) =>
   PrintT("@@" \o ToJson([tid |-> tid, clause |-> verdict.clause, line |-> verdict.line, events |-> Len(Trace)]))
=============================================================================
