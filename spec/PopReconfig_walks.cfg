CONSTANTS
  MaxSub = 3
  MaxDim = 2
  MaxIds = 3
  MaxCov = 1
  MaxFixed = 2
  CovSpecial = "repaired"
  Menu <- MCMenu
  BadOps = FALSE
  MaxOps = 4
SPECIFICATION RC_Spec

CHECK_DEADLOCK FALSE
INVARIANT PL_Bijection
INVARIANT PL_Counts
INVARIANT IdsMarkBottom
INVARIANT EtaColOK
INVARIANT BottomNamesOK
INVARIANT IdsOK
INVARIANT GradSlotOK
INVARIANT SubOrder
INVARIANT SpecialTableOK
INVARIANT FixedInRange
INVARIANT DefaultUnique
INVARIANT RC_Emit
