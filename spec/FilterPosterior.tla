--------------------------- MODULE FilterPosterior ---------------------------
(***************************************************************************)
(* chi.PopulationFilterLogPosterior: block layout of the flat vector,      *)
(* scatter of pooled / heterogeneous dimensions into the simulated          *)
(* individuals and gather of their sensitivities (property C13).            *)
(*                                                                         *)
(* Reuses the composition, slots and tables of PopLayout with               *)
(* nIds := number of simulated individuals.  The published vector is        *)
(*    [ population block | Sigma(r) if free | Eta(s, d) for the             *)
(*      hierarchical dimensions, s-major | Eps(s, r, t) ]                   *)
(* Mech transcribes _reshape_bottom_parameters and _remove_duplicates with  *)
(* their shortcuts.  Variant "asfound": the all-heterogeneous shortcut      *)
(* reshapes the population block as (nSamples, nDim), and the all-pooled /  *)
(* all-heterogeneous gather adds into the first nTop entries (which include *)
(* the sigmas); Variant "repaired": the shortcuts are taken only where they *)
(* coincide with the general loop.                                          *)
(***************************************************************************)
EXTENDS PopLayout

CONSTANTS MaxObs, MaxTimes, FPVariant
VARIABLES nObs, nTimes, sigmaFree
fpvars == <<subs, nIds, fixed, phase, tb, nObs, nTimes, sigmaFree>>

nSamples == nIds
Sigma(r)     == <<"sigma", r, 0, 0>>
Eps(s, r, t) == <<"eps", s, r, t>>
SigmaSeq == IF sigmaFree THEN [r \in 1..nObs |-> Sigma(r)] ELSE <<>>
EpsSeq == PL_Flat([s \in 1..nSamples |-> PL_Flat([r \in 1..nObs |-> [t \in 1..nTimes |-> Eps(s, r, t)]])])
FP_NTop == NTopFull + Len(SigmaSeq)
FP_EndBottom == FP_NTop + NBottom
FP_Layout == TopFull \o SigmaSeq \o EtaSeq \o EpsSeq
FP_NParams == Len(FP_Layout)

\* names and IDs
MechName(d) == "P" \o ToString(d)
OutName(r)  == "Y" \o ToString(r)
FP_TopName(k) == LET s == TopFull[k] j == s[2] m == subs[j] IN
  IF s[1] = "theta" THEN ParamName(m, s[3]) \o " " \o MechName(DimOff(j) + s[4])
  ELSE LET p == ((s[3] - 1) \div m.nd) + 1   dl == ((s[3] - 1) % m.nd) + 1
       IN ParamName(m, p) \o " " \o MechName(DimOff(j) + dl) \o " Cov. " \o ToString(s[4])
FP_NameOf(k) == LET s == FP_Layout[k] IN
  CASE s[1] \in {"theta", "beta"} -> FP_TopName(k)
    [] s[1] = "sigma" -> "Sigma " \o OutName(s[2])
    [] s[1] = "eta"   -> MechName(s[3])
    [] s[1] = "eps"   -> OutName(s[3]) \o " Epsilon time " \o ToString(s[4])
FP_IdOf(k) == LET s == FP_Layout[k] IN
  IF s[1] \in {"eta", "eps"} THEN "Sim. " \o ToString(s[2]) ELSE "None"
FP_Names == [k \in 1..FP_NParams |-> FP_NameOf(k)]
FP_Ids   == [k \in 1..FP_NParams |-> FP_IdOf(k)]

\* ---- Decl: which vector position individual parameter (s, d) is read from -------------------
PosOf(slot) == CHOOSE k \in 1..FP_NParams : FP_Layout[k] = slot
DeclPsiSrc(s, d) == LET j == SubOf(d) dl == LocalDim(d) m == subs[j] IN
  CASE m.kind = "P" -> PosOf(Theta(j, 1, dl))
    [] m.kind = "H" -> PosOf(Theta(j, s, dl))
    [] OTHER -> PosOf(Eta(s, d))

\* ---- Mech: _reshape_bottom_parameters -------------------------------------------------------------
\* the special-dimension table of the posterior is built with isinstance on the sub-models, so a
\* covariate wrapper hides a pooled / heterogeneous sub-model
VisibleSpecial == SelectSeq(
  [j \in 1..NSub |-> <<DimOff(j), DimOff(j) + subs[j].nd, TopOff(j), TopOff(j) + NTopOf(subs[j]), subs[j].kind = "P",
                       IsSpecial(subs[j]) /\ subs[j].cov = 0>>],
  LAMBDA e : e[6])
NPooledVisible == PL_Sum([j \in 1..NSub |-> IF subs[j].kind = "P" /\ subs[j].cov = 0 THEN subs[j].nd ELSE 0])
NHeteroVisible == PL_Sum([j \in 1..NSub |-> IF subs[j].kind = "H" /\ subs[j].cov = 0 THEN subs[j].nd ELSE 0])
NHeteroSubs    == Cardinality({j \in 1..NSub : subs[j].kind = "H"})
HiddenSpecial  == \E j \in 1..NSub : IsSpecial(subs[j]) /\ subs[j].cov > 0

\* general loop: source position (1-based in the flat vector) of entry (s, d)
RECURSIVE LoopSrc(_, _, _, _, _)
LoopSrc(e, cur, shift, s, d) ==        \* cur, shift 0-based dims; d 1-based
  IF e > Len(VisibleSpecial)
  THEN FP_NTop + (s - 1) * NHDim + (d - 1 - shift) + 1                     \* bottom_parameters[:, cur-shift:]
  ELSE LET sd == VisibleSpecial[e] IN
       IF d - 1 < sd[1] THEN FP_NTop + (s - 1) * NHDim + (d - 1 - shift) + 1
       ELSE IF d - 1 < sd[2]
            THEN IF sd[5] THEN sd[3] + (d - 1 - sd[1]) + 1                              \* pooled: top[start:end]
                 ELSE sd[3] + (s - 1) * (sd[2] - sd[1]) + (d - 1 - sd[1]) + 1           \* reshape(n_samples, dims)
            ELSE LoopSrc(e + 1, sd[2], shift + (sd[2] - sd[1]), s, d)
MechPsiSrc(s, d) ==
  IF NHDim = NDim THEN FP_NTop + (s - 1) * NDim + d
  ELSE IF NPooledVisible = NDim THEN d
  ELSE IF NHeteroVisible = NDim /\ (FPVariant = "asfound" \/ NHeteroSubs = 1) THEN (s - 1) * NDim + d
  ELSE LoopSrc(1, 0, 0, s, d)
FP_ScatterOK == (Built /\ ~HiddenSpecial) => \A s \in 1..nSamples : \A d \in 1..NDim : MechPsiSrc(s, d) = DeclPsiSrc(s, d)

\* ---- Mech: _remove_duplicates (gather) -- length of the block the shortcut adds into --------------
GatherTargetLen == IF FPVariant = "asfound" THEN FP_NTop ELSE NTopFull
FP_GatherOK == (Built /\ ~HiddenSpecial /\ NHDim < NDim) =>
   /\ (NPooledVisible = NDim => GatherTargetLen = NDim)
   /\ (NHeteroVisible = NDim /\ NHeteroSubs = 1 => GatherTargetLen = nSamples * NDim)

FP_Bijection == Built => Cardinality(PL_Rng(FP_Layout)) = FP_NParams
FP_Counts == Built => FP_NParams = FP_NTop + nSamples * (NHDim + nTimes * nObs)
FP_IdsMarkBottom == Built => \A k \in 1..FP_NParams : (FP_Ids[k] # "None") <=> k > FP_NTop

FP_Init == /\ Init /\ fixed = {}
           /\ nObs \in 1..MaxObs /\ nTimes \in 1..MaxTimes /\ sigmaFree \in BOOLEAN
FP_Next == (Build \/ NameIt) /\ UNCHANGED <<nObs, nTimes, sigmaFree>>
FP_Spec == FP_Init /\ [][FP_Next]_fpvars

FP_Config == [subs |-> subs, nsamples |-> nSamples, nobs |-> nObs, ntimes |-> nTimes, sigmafree |-> sigmaFree,
              ndim |-> NDim, ncov |-> NCov, ntop |-> FP_NTop, npop |-> NTopFull, endbottom |-> FP_EndBottom,
              nparams |-> FP_NParams, layout |-> FP_Layout, names |-> FP_Names, ids |-> FP_Ids, hdims |-> HDims,
              hidden_special |-> HiddenSpecial]
FP_Emit == Built => PrintT("@@" \o ToJson(FP_Config))
=============================================================================
