CONSTANTS
  MaxSub = 3
  MaxDim = 2
  MaxIds = 3
  MaxCov = 1
  MaxFixed = 0
  CovSpecial = "repaired"
SPECIFICATION Spec
CHECK_DEADLOCK FALSE
INVARIANT IO_ExactlyOnce
INVARIANT IO_NoNameClash
INVARIANT IO_InitialBottom
INVARIANT IO_Emit
