------------------------------- MODULE PopLeaf -------------------------------
(***************************************************************************)
(* One population (leaf) model: accepted parameter layouts and return      *)
(* forms of the sensitivities (property C05, leaf part of C17).            *)
(*                                                                         *)
(* Abstractly a leaf model has population parameters V[p][d]               *)
(* (p \in 1..NPer, d \in 1..nDim; NPer = 2 for G/LN/TG, 1 for pooled,      *)
(* nIds for heterogeneous).  The three accepted layouts are VIEWS of V:    *)
(*    flat    position (p-1)*nDim + d                                      *)
(*    matrix  [p][d]                                                       *)
(*    tensor  [i][p][d]  (one copy per individual; covariate models pass   *)
(*            different values per individual)                             *)
(* and a sensitivity computation returns, for the per-individual           *)
(* contributions D(i,p,d) and E(i,d) (w.r.t. population resp. individual   *)
(* parameters), one of the return forms                                    *)
(*    separate     dpsi[i][d] = E(i,d),   dtheta[(p-1)*nDim+d] = SUM_i D   *)
(*    unflattened  dpsi[i][d] = E(i,d),   dtheta[i][p][d] = D(i,p,d)       *)
(*    reduced      hstack(dpsi.flatten(), SUM_i dtheta) -- with the        *)
(*                 pooled override SUM_i E(i,d) and the heterogeneous      *)
(*                 override E(i,d) at the individual's own entry           *)
(* TLC checks that the views agree, that each return form is a bijection   *)
(* onto its index set and that every length equals the reported counts.    *)
(***************************************************************************)
\* The interpretation of every symbol below is a function of the VALUES of the arrays handed to the model, not of their
\* representation (float or integer dtype): Representations == {"float", "int"} -- replayed by harness/replay_popleaf.py
\* (representation_checks) for leaf, composed, covariate and reduced models.
EXTENDS Naturals, Sequences, FiniteSets, TLC, Json, SequencesExt, FiniteSetsExt

CONSTANTS MaxDim, MaxIds
VARIABLES kind, cen, nDim, nIds, layout, form, upstream, phase
vars == <<kind, cen, nDim, nIds, layout, form, upstream, phase>>

Kinds == {"G", "LN", "TG", "P", "H"}
Checked == phase = "checked"
NPer == CASE kind = "P" -> 1 [] kind = "H" -> nIds [] OTHER -> 2
NPop == NPer * nDim
Special == kind \in {"P", "H"}
NBottom == IF Special THEN 0 ELSE nIds * nDim           \* n_hierarchical_parameters(nIds)[0]
NTop    == NPop                                          \* n_hierarchical_parameters(nIds)[1]

\* --- layouts as views of V ------------------------------------------------
\* the abstract entry an index of a layout denotes (index = sequence of 1-based coordinates)
FlatIdx(p, d) == (p - 1) * nDim + d
ViewFlat   == [q \in 1..NPop |-> <<((q - 1) \div nDim) + 1, ((q - 1) % nDim) + 1>>]
ViewMatrix == [p \in 1..NPer |-> [d \in 1..nDim |-> <<p, d>>]]
ViewTensor == [i \in 1..nIds |-> [p \in 1..NPer |-> [d \in 1..nDim |-> <<p, d>>]]]
ViewsAgree == Checked =>
  /\ \A p \in 1..NPer : \A d \in 1..nDim :
        /\ ViewFlat[FlatIdx(p, d)] = <<p, d>>
        /\ ViewMatrix[p][d] = <<p, d>>
        /\ \A i \in 1..nIds : ViewTensor[i][p][d] = <<p, d>>
  /\ Len(ViewFlat) = NPop

\* which V entry individual i's density reads for its dimension d, parameter role r (1 = location, 2 = scale)
\* pooled: the shared entry; heterogeneous: the individual's own entry
Reads(i, r, d) == CASE kind = "P" -> <<1, d>> [] kind = "H" -> <<i, d>> [] OTHER -> <<r, d>>

\* --- return forms -----------------------------------------------------------
\* symbolic contributions
E(i, d)    == <<"E", i, d, 0>>       \* d logp / d psi_i,d  (+ upstream)
D(i, p, d) == <<"D", i, p, d>>       \* d logp_i / d V[p][d]
SumD(p, d) == {D(i, p, d) : i \in 1..nIds}
DPsi == [i \in 1..nIds |-> [d \in 1..nDim |-> {E(i, d)}]]
DThetaFlat == [q \in 1..NPop |-> IF Special THEN {} ELSE SumD(ViewFlat[q][1], ViewFlat[q][2])]
DThetaUnflat == [i \in 1..nIds |-> [p \in 1..NPer |-> [d \in 1..nDim |-> IF Special THEN {} ELSE {D(i, p, d)}]]]
Reduced ==
  CASE kind = "P" -> [d \in 1..nDim |-> {E(i, d) : i \in 1..nIds}]                   \* sum over individuals
    [] kind = "H" -> [q \in 1..(nIds * nDim) |-> {E(((q - 1) \div nDim) + 1, ((q - 1) % nDim) + 1)}]
    [] OTHER -> [q \in 1..(nIds * nDim) |-> {E(((q - 1) \div nDim) + 1, ((q - 1) % nDim) + 1)}] \o DThetaFlat

ReducedLenOK == Checked => Len(Reduced) = NBottom + NTop
\* every symbolic contribution appears exactly once in each return form
PF_Rng(s) == {s[i] : i \in DOMAIN s}
AllE == {E(i, d) : i \in 1..nIds, d \in 1..nDim}
AllD == {D(i, p, d) : i \in 1..nIds, p \in 1..NPer, d \in 1..nDim}
ReducedComplete == Checked =>
  /\ UNION PF_Rng(Reduced) = AllE \cup (IF Special THEN {} ELSE AllD)
  /\ \A q1, q2 \in DOMAIN Reduced : q1 # q2 => Reduced[q1] \cap Reduced[q2] = {}
SeparateComplete == Checked =>
  /\ UNION {DPsi[i][d] : i \in 1..nIds, d \in 1..nDim} = AllE
  /\ UNION PF_Rng(DThetaFlat) = (IF Special THEN {} ELSE AllD)
  /\ Len(DThetaFlat) = NPop
\* heterogeneous reduced entries sit at the individual's own population entry
HeteroOwnEntry == (Checked /\ kind = "H") =>
  \A i \in 1..nIds : \A d \in 1..nDim : Reduced[FlatIdx(i, d)] = {E(i, d)}

Init == /\ kind \in Kinds /\ cen \in BOOLEAN /\ (kind \notin {"G", "LN"} => cen)
        /\ nDim \in 1..MaxDim /\ nIds \in 1..MaxIds
        /\ layout \in {"flat", "matrix", "tensor"}
        /\ form \in {"separate", "unflattened", "reduced"}
        /\ upstream \in BOOLEAN /\ phase = "raw"
\* the checking step is a transition so that TLC distributes the configurations over its workers
Next == phase = "raw" /\ phase' = "checked" /\ UNCHANGED <<kind, cen, nDim, nIds, layout, form, upstream>>
Spec == Init /\ [][Next]_vars

Config == [kind |-> kind, cen |-> cen, ndim |-> nDim, nids |-> nIds, layout |-> layout, form |-> form,
           upstream |-> upstream, nper |-> NPer, npop |-> NPop, nbottom |-> NBottom, ntop |-> NTop,
           reducedlen |-> Len(Reduced)]
Emit == Checked => PrintT("@@" \o ToJson(Config))
=============================================================================
