CONSTANTS
  NInst = 1
  Regs = {1, 2}
  OutSels = {0, 1, 2, 3}
  OutSelsRen = {0, 1, 3}
  OutSelsDose = {3}
  ReAdmin = "clear"
  Design = "repaired"
  MaxOps = 16
SPECIFICATION Spec
VIEW View
CHECK_DEADLOCK FALSE
INVARIANT ProtocolFollowsRegimen
INVARIANT RunIsConsistent
INVARIANT NoSharing
INVARIANT Sequential
INVARIANT HistoryIndependence
INVARIANT RegimenNeedsRoute
