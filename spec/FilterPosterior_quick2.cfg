CONSTANTS
  MaxSub = 1
  MaxDim = 2
  MaxIds = 3
  MaxCov = 0
  MaxFixed = 0
  CovSpecial = "repaired"
  MaxObs = 2
  MaxTimes = 3
  FPVariant = "repaired"
SPECIFICATION FP_Spec
CHECK_DEADLOCK FALSE
INVARIANT FP_ScatterOK
INVARIANT FP_GatherOK
INVARIANT FP_Bijection
INVARIANT FP_Counts
INVARIANT FP_IdsMarkBottom
INVARIANT FP_Emit
