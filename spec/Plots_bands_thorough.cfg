CONSTANTS
  MaxN = 7
  ValDom = {1, 2, 3, 4}
  MaxRows = 1
  Mode = "bands"
SPECIFICATION Spec
CHECK_DEADLOCK FALSE
INVARIANT Encloses
INVARIANT Nested
INVARIANT ExistenceMonotone
INVARIANT Emit
