--------------------------- MODULE MC_PopReconfig ---------------------------
EXTENDS PopReconfig
S(k, n, c, v) == [kind |-> k, nd |-> n, cen |-> c, cov |-> v]
MCMenu == { <<S("G", 2, TRUE, 0)>>,
            <<S("P", 1, TRUE, 0), S("H", 1, TRUE, 0), S("LN", 1, FALSE, 0)>>,
            <<S("G", 1, TRUE, 1), S("P", 1, TRUE, 0)>>,
            <<S("G", 1, TRUE, 0), S("G", 1, FALSE, 0)>>,
            <<S("H", 2, TRUE, 0), S("TG", 1, TRUE, 0)>>,
            <<S("H", 1, TRUE, 1), S("LN", 1, TRUE, 0)>> }
=============================================================================
