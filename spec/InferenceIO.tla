----------------------------- MODULE InferenceIO -----------------------------
(***************************************************************************)
(* Inference input / output (property C18): formatting of raw chains into   *)
(* a posterior dataset, the layout of initial points, optimisation tables.  *)
(* Built on the layout of PopLayout (names, IDs, slots).                    *)
(*                                                                         *)
(* Raw chains have shape (chain, draw, position).  SamplingController        *)
(* ._format_chains creates one dataset variable per distinct parameter      *)
(* name:                                                                    *)
(*   a population-level name -> variable[chain, draw] = raw[.., position]    *)
(*   an individual-level name -> variable[chain, draw, individual k] =       *)
(*        raw[.., k-th position carrying that name]  (name mask), the        *)
(*        individual coordinate being the list of unique IDs.               *)
(* Decl: the cell of position k is (Names[k], Ids[k]).  TLC checks that the  *)
(* mask mechanism realises exactly that bijection for every composition.    *)
(***************************************************************************)
EXTENDS PopLayout

\* unique individual IDs in likelihood order
UniqueIds == [i \in 1..nIds |-> LLId(i)]
TopNames == {Names[k] : k \in (NBottom + 1)..NParams}
BottomNames == {Names[k] : k \in 1..NBottom}

\* ---- Mech: _format_chains ------------------------------------------------------------------
\* population-level variable: the LAST position carrying the name wins (dictionary assignment)
MechTopPos(nm) == CHOOSE k \in 1..NParams : Names[k] = nm /\ \A q \in 1..NParams : Names[q] = nm => q <= k
\* individual-level variable: masked positions in increasing order, paired with UniqueIds
MaskedPos(nm) == SelectSeq([k \in 1..NParams |-> k], LAMBDA k : Names[k] = nm)
\* the cell (variable name, individual index or 0) each position is written to
MechCellOf(k) == IF Names[k] \in TopNames THEN <<Names[k], 0>>
                 ELSE <<Names[k], CHOOSE i \in 1..Len(MaskedPos(Names[k])) : MaskedPos(Names[k])[i] = k>>
DeclCellOf(k) == IF k > NBottom THEN <<Names[k], 0>> ELSE <<Names[k], Layout[k][2]>>   \* Layout[k] = Eta(i, d)

IO_ExactlyOnce == Built =>
  /\ \A k \in 1..NParams : MechCellOf(k) = DeclCellOf(k)
  /\ \A k1, k2 \in 1..NParams : k1 # k2 => MechCellOf(k1) # MechCellOf(k2)
  /\ \A nm \in BottomNames \ TopNames : Len(MaskedPos(nm)) = nIds
\* names of individual-level and population-level entries never coincide with default naming
IO_NoNameClash == Built => BottomNames \cap TopNames = {}
\* initial points: the bottom block of an initial point is the population sample restricted to the
\* hierarchical dimensions, individual-major
IO_InitialBottom == Built =>
  [k \in 1..NBottom |-> <<Layout[k][2], Layout[k][3]>>] = PL_Flat([i \in 1..nIds |-> [h \in 1..NHDim |-> <<i, HDims[h]>>]])

IO_Config == [subs |-> subs, nids |-> nIds, ndim |-> NDim, ncov |-> NCov, nbottom |-> NBottom, ntop |-> NTop,
              layout |-> Layout, names |-> Names, ids |-> Ids, hdims |-> HDims,
              cells |-> [k \in 1..NParams |-> DeclCellOf(k)], uniqueids |-> UniqueIds]
IO_Emit == Built => PrintT("@@" \o ToJson(IO_Config))
=============================================================================
