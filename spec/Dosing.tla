------------------------------- MODULE Dosing -------------------------------
(***************************************************************************)
(* Dosing regimens (property C10), in integer time.                        *)
(*                                                                         *)
(* set_dosing_regimen(dose, start, duration, period, num) is translated    *)
(* into one pacing event (level = dose/duration, start, duration, period,  *)
(* multiplier) with period = None => (0, 0) and num = None => 0.           *)
(* Pacing semantics (myokit): occurrence k of an event is active on        *)
(* [start + k*period, start + k*period + duration) for k < multiplier,     *)
(* for all k >= 0 if multiplier = 0 and period > 0, only k = 0 if          *)
(* period = 0.                                                             *)
(*                                                                         *)
(*   Decl  Table(T) = the occurrences the pacing semantics starts up to T; *)
(*         CumInput(t) = drug delivered up to t (numerator over 2*dur,     *)
(*         with t given in half units so that mid-infusion times can be    *)
(*         observed).                                                      *)
(*   Mech  the dose-count loop of PredictiveModel.get_dosing_regimen,      *)
(*         Variant "asfound" (n = final // period for indefinite regimens) *)
(*         and "repaired" (n = (final - start) // period + 1).             *)
(***************************************************************************)
EXTENDS Naturals, Integers, Sequences, FiniteSets, TLC, Json, SequencesExt, FiniteSetsExt

CONSTANTS Doses, Starts, Durs, Periods, Nums, Finals,   \* Periods / Nums contain 0 for None; Finals contains Unlimited
          Variant
Unlimited == -1
VARIABLES dose, start, dur, period, num, final, phase
vars == <<dose, start, dur, period, num, final, phase>>
Checked == phase = "checked"

\* ---- translation (set_dosing_regimen) --------------------------------------------------
EvPeriod == period                                   \* None -> 0
EvMult   == IF period = 0 THEN 0 ELSE num            \* period None forces a single dose; num None -> 0
Horizon  == IF final = Unlimited THEN 12 ELSE final  \* bounded horizon for the unbounded case
\* What else the model is asked to compute while it is dosed.  Nothing below mentions the mode: delivery is a function of
\* the regimen alone.  The replayer draws one mode per exported configuration and holds the code to the same numbers.
Modes == {"plain", "sens", "reselect", "reduced_fix", "sens_off"}

\* ---- Decl: pacing semantics ----------------------------------------------------------------
ActiveOcc(k) == IF EvPeriod = 0 THEN k = 0 ELSE IF EvMult = 0 THEN TRUE ELSE k < EvMult
OccStart(k)  == start + k * EvPeriod
\* occurrences started up to (and including) time T
Occ(T) == {k \in 0..(T + 1) : ActiveOcc(k) /\ OccStart(k) <= T}
\* the table lists, for an unlimited final time, only what a finite table can: see TableDecl
TableDecl ==
  IF final = Unlimited
  THEN IF EvPeriod > 0 /\ EvMult = 0 THEN {<<start, dur, dose>>}          \* indefinite: first dose only
       ELSE {<<OccStart(k), dur, dose>> : k \in {q \in 0..12 : ActiveOcc(q)}}
  ELSE {<<OccStart(k), dur, dose>> : k \in Occ(final)}

\* ---- Mech: get_dosing_regimen ---------------------------------------------------------------
MechCount ==
  IF EvMult # 0 THEN EvMult
  ELSE IF final = Unlimited THEN 1
  ELSE IF Variant = "asfound" THEN final \div EvPeriod
  ELSE ((final - start) \div EvPeriod) + 1
MechTable ==
  IF final # Unlimited /\ start > final THEN {}
  ELSE IF EvPeriod = 0 THEN {<<start, dur, dose>>}
  ELSE {<<start + n * EvPeriod, dur, dose>> : n \in {q \in 0..(MechCount - 1) : final = Unlimited \/ start + q * EvPeriod <= final}}
TableIsApplied == Checked => MechTable = TableDecl

\* ---- what the system receives: cumulative input at half-unit times t2 (t = t2 / 2) -------------
\* overlap (in half units) of occurrence k with [0, t2)
DS_Min(a, b) == IF a < b THEN a ELSE b
DS_Max(a, b) == IF a > b THEN a ELSE b
Overlap2(k, t2) == DS_Max(0, DS_Min(t2, 2 * (OccStart(k) + dur)) - 2 * OccStart(k))
\* numerator of the delivered amount over the denominator 2 * dur
CumNum(t2) == LET ks == {k \in 0..(t2 + 1) : ActiveOcc(k) /\ 2 * OccStart(k) < t2}
              IN FoldSet(LAMBDA k, acc : acc + dose * Overlap2(k, t2), 0, ks)
\* scheduled doses completed by t2 are delivered in full, nothing is delivered before the first start
DeliversDoses == Checked => \A t2 \in 0..(2 * Horizon) :
   LET done == {k \in 0..(t2 + 1) : ActiveOcc(k) /\ 2 * (OccStart(k) + dur) <= t2}
       busy == {k \in 0..(t2 + 1) : ActiveOcc(k) /\ 2 * OccStart(k) < t2 /\ t2 < 2 * (OccStart(k) + dur)}
   IN /\ CumNum(t2) >= Cardinality(done) * dose * 2 * dur
      /\ CumNum(t2) <= (Cardinality(done) + Cardinality(busy)) * dose * 2 * dur
      /\ (busy = {} => CumNum(t2) = Cardinality(done) * dose * 2 * dur)
      /\ (t2 <= 2 * start => CumNum(t2) = 0)
\* occurrences of one event never overlap (myokit requires duration <= period)
NoOverlap == Checked => (EvPeriod > 0 => dur <= EvPeriod)

Init == /\ dose \in Doses /\ start \in Starts /\ dur \in Durs /\ period \in Periods /\ num \in Nums
        /\ final \in Finals /\ (period > 0 => dur <= period) /\ phase = "raw"
Next == phase = "raw" /\ phase' = "checked" /\ UNCHANGED <<dose, start, dur, period, num, final>>
Spec == Init /\ [][Next]_vars

Config == [dose |-> dose, start |-> start, dur |-> dur, period |-> period, num |-> num, final |-> final,
           evperiod |-> EvPeriod, evmult |-> EvMult, table |-> TableDecl,
           cum |-> [t2 \in 1..(2 * Horizon) |-> CumNum(t2)], cumden |-> 2 * dur, horizon |-> Horizon]
Emit == Checked => PrintT("@@" \o ToJson(Config))
=============================================================================
