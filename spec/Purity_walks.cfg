CONSTANTS
  NInst = 3
  Regs = {1, 2}
  OutSels = {0, 1}
  OutSelsRen = {0, 1}
  OutSelsDose = {}
  ReAdmin = "keep"
  Design = "repaired"
  MaxOps = 40
  NObj = 2
  EMCopy = "deep"
  MaxEvals = 5
SPECIFICATION PU_Spec

CHECK_DEADLOCK FALSE
INVARIANT ProtocolFollowsRegimen
INVARIANT RunIsConsistent
INVARIANT NoSharing
INVARIANT ObjectsDosed
PROPERTY Isolation
PROPERTY EMIsolation
INVARIANT EmitEvals
