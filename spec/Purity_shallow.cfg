CONSTANTS
  NInst = 3
  Regs = {1, 2}
  OutSels = {0, 1}
  OutSelsRen = {0, 1}
  OutSelsDose = {}
  ReAdmin = "keep"
  Design = "repaired"
  MaxOps = 40
  NObj = 2
  EMCopy = "shallow"
  MaxEvals = 4
SPECIFICATION PU_Spec
VIEW PU_View
CHECK_DEADLOCK FALSE
INVARIANT ProtocolFollowsRegimen
INVARIANT RunIsConsistent
INVARIANT NoSharing
INVARIANT ObjectsDosed
PROPERTY Isolation
PROPERTY EMIsolation
