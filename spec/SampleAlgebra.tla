---------------------------- MODULE SampleAlgebra ----------------------------
(***************************************************************************)
(* The law of what a sampler returns, computed from the primitive variates *)
(* it consumed (property C06; cell laws of C15).                           *)
(*                                                                         *)
(* A sampler call is observed as a set of ATOMS (primitive variates drawn   *)
(* from NumPy / SciPy: standard-normal based "normal" and "lognormal"       *)
(* atoms, "truncnorm" atoms with their location, scale and lower bound)     *)
(* and, for every returned CELL, its functional form over the atoms:        *)
(*    affine     cell     = c0 + SUM_j c_j z_j    (z_j standard normal)     *)
(*    logaffine  log cell = c0 + SUM_j c_j z_j                              *)
(*    atom       cell is one truncated-normal atom                          *)
(*    point      cell is the constant c0                                    *)
(* With integer inputs every number is an integer multiple of 1/Den and is *)
(* carried as that integer.  The algebra is closed: the law of an affine    *)
(* cell is Normal(c0, SUM c_j^2), of a logaffine cell LogNormal(c0, SUM     *)
(* c_j^2) -- variances are compared as integers, no statistics involved.    *)
(* The CLAIMED law of a cell is the law its model's log-likelihood scores.  *)
(*                                                                         *)
(* Used in two ways: (1) as a trace specification for recorded sampler      *)
(* calls (one record per call in IOEnv.TRACE_FILE), (2) with the built-in   *)
(* designs below as a design-level check (negative control).                *)
(***************************************************************************)
EXTENDS Integers, Sequences, FiniteSets, TLC, Json, IOUtils, SequencesExt, FiniteSetsExt

VARIABLES tid, done
vars == <<tid, done>>

Calls == JsonDeserialize(IOEnv.TRACE_FILE)
Call  == Calls[tid]

SA_Sum(f) == FoldLeft(LAMBDA acc, x : acc + x, 0, f)
SA_Rng(s) == {s[i] : i \in DOMAIN s}

\* derived law of a cell: <<family, location, squared scale, lower>>  (lower = 0 where not applicable)
Support(cell) == {cell.coef[j][1] : j \in DOMAIN cell.coef}
VarOf(cell)   == SA_Sum([j \in DOMAIN cell.coef |-> cell.coef[j][2] * cell.coef[j][2]])
AtomsAre(call, cell, fam) == \A a \in Support(cell) : call.atoms[a].fam = fam
CellLaw(call, cell) ==
  CASE cell.form = "affine"    -> IF AtomsAre(call, cell, "normal") THEN <<"normal", cell.c0, VarOf(cell), 0>>
                                  ELSE <<"outside", 0, 0, 0>>
    [] cell.form = "logaffine" -> IF AtomsAre(call, cell, "normal") THEN <<"lognormal", cell.c0, VarOf(cell), 0>>
                                  ELSE <<"outside", 0, 0, 0>>
    [] cell.form = "atom"      -> LET a == call.atoms[cell.coef[1][1]]
                                  IN <<a.fam, a.loc, a.scale * a.scale, a.lower>>
    [] cell.form = "point"     -> <<"point", cell.c0, 0, 0>>
    [] OTHER                   -> <<"outside", 0, 0, 0>>
\* the claim carries location and scale (not squared); Den-scaled integers: scale^2 is in units 1/Den^2 on both sides
ClaimedLaw(cell) == <<cell.claim.fam, cell.claim.loc, cell.claim.scale * cell.claim.scale, cell.claim.lower>>

Decided(call, cell) == CellLaw(call, cell)[1] # "outside"
CellOK(call, cell)  == Decided(call, cell) => CellLaw(call, cell) = ClaimedLaw(cell)
\* cells that the model treats as independent (different group tags) share no atom
IndependentOK(call) == \A i, j \in DOMAIN call.cells :
   (i < j /\ call.cells[i].group # call.cells[j].group) => Support(call.cells[i]) \cap Support(call.cells[j]) = {}
\* distinct cells of one call never use exactly the same variate combination (they would be identical)
DistinctOK(call) == \A i, j \in DOMAIN call.cells :
   (i < j /\ call.cells[i].form \in {"affine", "logaffine"} /\ call.cells[j].form \in {"affine", "logaffine"}
      /\ call.cells[i].coef # <<>>) => call.cells[i].coef # call.cells[j].coef

FirstBad(call) == LET bad == {i \in DOMAIN call.cells : ~CellOK(call, call.cells[i])}
                  IN IF bad = {} THEN 0 ELSE CHOOSE i \in bad : \A j \in bad : i <= j

Init == tid \in 1..Len(Calls) /\ done = FALSE
Next == ~done /\ done' = TRUE /\ UNCHANGED tid
Spec == Init /\ [][Next]_vars

EmitVerdict == done =>
  PrintT("@@" \o ToJson([tid |-> tid,
     clause |-> IF FirstBad(Call) # 0 THEN "CellLaw" ELSE IF ~IndependentOK(Call) THEN "Independent"
                ELSE IF ~DistinctOK(Call) THEN "Distinct" ELSE "",
     cell |-> FirstBad(Call),
     law |-> IF FirstBad(Call) # 0 THEN CellLaw(Call, Call.cells[FirstBad(Call)]) ELSE <<>>,
     claimed |-> IF FirstBad(Call) # 0 THEN ClaimedLaw(Call.cells[FirstBad(Call)]) ELSE <<>>,
     undecided |-> Cardinality({i \in DOMAIN Call.cells : ~Decided(Call, Call.cells[i])}),
     cells |-> Len(Call.cells)]))
=============================================================================
