CONSTANTS
  MaxObs = 5
  MaxWidth = 3
SPECIFICATION Spec
CHECK_DEADLOCK FALSE
INVARIANT PointwiseIsTotal
INVARIANT GradLength
INVARIANT GradOrder
INVARIANT Emit
