CONSTANTS
  MaxObs = 8
  MaxWidth = 5
SPECIFICATION Spec
CHECK_DEADLOCK FALSE
INVARIANT PointwiseIsTotal
INVARIANT GradLength
INVARIANT GradOrder
INVARIANT Emit
