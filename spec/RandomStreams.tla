---------------------------- MODULE RandomStreams ----------------------------
(***************************************************************************)
(* Random streams of a sampling call (property C16).                       *)
(*                                                                         *)
(* A generator has a stream KEY -- <<"seed", s>> when made from the        *)
(* integer seed s, <<"fresh", n>> when made from None (OS entropy) -- and  *)
(* a position.  A primitive draw of k variates consumes the variates       *)
(* <<key, pos+1 .. pos+k>>.  Two generator objects made from the same      *)
(* integer seed have the SAME key: they produce the same variates.  The    *)
(* global NumPy generator is either seeded inside the call (key            *)
(* <<"global", s>>) or in an unknown state (<<"global", "unknown">>).      *)
(*                                                                         *)
(* A sampler with S sub-samplers (error models of the outputs, population  *)
(* sub-models, patients) follows one of the DESIGNS                        *)
(*   "thread"   one generator is made from the seed and handed on,         *)
(*   "reseed"   every sub-sampler makes its own generator from the seed    *)
(*              argument (as PredictiveModel.sample does with an int),     *)
(*   "global"   a sub-sampler draws from the global generator without      *)
(*              seeding it (as PAMPredictiveModel.sample does),            *)
(*   "globalseeded" the global generator is seeded from the seed first.    *)
(* TLC checks which designs satisfy the stream properties; the trace       *)
(* module Trace_RandomStreams checks which design the CODE follows.        *)
(***************************************************************************)
EXTENDS Naturals, Sequences, FiniteSets, TLC, Json, SequencesExt, FiniteSetsExt

CONSTANTS Design, NSub, DrawsPerSub, SeedArgs     \* SeedArgs \subseteq {"int", "none", "gen"}

VARIABLES seedArg,   \* kind of the seed argument of the call in progress
          gens,      \* sequence of generators: [key, pos]
          glob,      \* [key, pos] of the global generator
          used,      \* bag-as-function: variate -> number of times consumed
          sub,       \* next sub-sampler to run (1..NSub+1)
          cur        \* index of the generator the current design threads (0 = none)
vars == <<seedArg, gens, glob, used, sub, cur>>

KeyOfArg(a) == CASE a = "int" -> <<"seed", "1">> [] a = "none" -> <<"fresh", "1">> [] a = "gen" -> <<"seed", "9">>
Consume(u, key, pos, k) ==
  LET vs == {<<key, pos + i>> : i \in 1..k}
  IN [v \in (DOMAIN u) \cup vs |-> (IF v \in DOMAIN u THEN u[v] ELSE 0) + (IF v \in vs THEN 1 ELSE 0)]

Init == /\ seedArg \in SeedArgs
        /\ gens = IF seedArg = "gen" THEN <<[key |-> <<"seed", "9">>, pos |-> 3]>> ELSE <<>>   \* a caller-owned generator, already advanced
        /\ glob = [key |-> <<"global", "unknown">>, pos |-> 0]
        /\ used = <<>> /\ sub = 1 /\ cur = 0

\* make (or adopt) the generator of the call
RS_MakeGen ==
  /\ cur = 0 /\ sub = 1 /\ Design \in {"thread"}
  /\ IF seedArg = "gen" THEN cur' = 1 /\ UNCHANGED gens
     ELSE gens' = Append(gens, [key |-> KeyOfArg(seedArg), pos |-> 0]) /\ cur' = Len(gens) + 1
  /\ UNCHANGED <<seedArg, glob, used, sub>>

RS_SeedGlobal ==
  /\ Design = "globalseeded" /\ cur = 0 /\ sub = 1 /\ glob.key = <<"global", "unknown">> /\ seedArg = "int"
  /\ glob' = [key |-> <<"global", "1">>, pos |-> 0]
  /\ cur' = 1
  /\ UNCHANGED <<seedArg, gens, used, sub>>

\* one sub-sampler draws
RS_SubDraw ==
  /\ sub <= NSub
  /\ CASE Design = "thread" ->
            /\ cur # 0
            /\ used' = Consume(used, gens[cur].key, gens[cur].pos, DrawsPerSub)
            /\ gens' = [gens EXCEPT ![cur].pos = @ + DrawsPerSub]
            /\ UNCHANGED <<glob, cur>>
       [] Design = "reseed" ->
            \* default_rng(seed) inside every sub-sampler: an int makes a new generator with the same key,
            \* None a fresh one, a Generator is passed through
            IF seedArg = "gen"
            THEN /\ used' = Consume(used, gens[1].key, gens[1].pos, DrawsPerSub)
                 /\ gens' = [gens EXCEPT ![1].pos = @ + DrawsPerSub] /\ UNCHANGED <<glob, cur>>
            ELSE LET key == IF seedArg = "int" THEN <<"seed", "1">> ELSE <<"fresh", ToString(sub)>>
                 IN /\ used' = Consume(used, key, 0, DrawsPerSub)
                    /\ gens' = Append(gens, [key |-> key, pos |-> DrawsPerSub]) /\ UNCHANGED <<glob, cur>>
       [] Design \in {"global", "globalseeded"} ->
            /\ (Design = "globalseeded" /\ seedArg = "int") => cur # 0
            /\ used' = Consume(used, glob.key, glob.pos, DrawsPerSub)
            /\ glob' = [glob EXCEPT !.pos = @ + DrawsPerSub]
            /\ UNCHANGED <<gens, cur>>
  /\ sub' = sub + 1
  /\ UNCHANGED seedArg

Next == RS_MakeGen \/ RS_SeedGlobal \/ RS_SubDraw
Spec == Init /\ [][Next]_vars
Done == sub = NSub + 1

\* ---- properties -----------------------------------------------------------------------------
\* with an integer seed the result is a function of the seed alone: no variate of a fresh or of the
\* unseeded global stream is used
Reproducible == seedArg = "int" =>
   \A v \in DOMAIN used : v[1][1] # "fresh" /\ v[1] # <<"global", "unknown">>
\* distinct sub-samplers (outputs, time points, individuals, samples) use distinct variates
Independent == \A v \in DOMAIN used : used[v] = 1
\* a generator passed as seed is advanced, never restarted: its draws continue after position 3
Advanced == seedArg = "gen" => \A v \in DOMAIN used : v[1] = <<"seed", "9">> => v[2] > 3
\* a caller-owned generator ends up advanced by everything the call consumed
GeneratorMoved == (Done /\ seedArg = "gen" /\ Design \in {"thread", "reseed"}) => gens[1].pos = 3 + NSub * DrawsPerSub
=============================================================================
