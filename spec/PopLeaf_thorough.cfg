CONSTANTS
  MaxDim = 4
  MaxIds = 4
SPECIFICATION Spec
CHECK_DEADLOCK FALSE
INVARIANT ViewsAgree
INVARIANT ReducedLenOK
INVARIANT ReducedComplete
INVARIANT SeparateComplete
INVARIANT HeteroOwnEntry
INVARIANT Emit
