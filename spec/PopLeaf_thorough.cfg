CONSTANTS
  MaxDim = 5
  MaxIds = 6
SPECIFICATION Spec
CHECK_DEADLOCK FALSE
INVARIANT ViewsAgree
INVARIANT ReducedLenOK
INVARIANT ReducedComplete
INVARIANT SeparateComplete
INVARIANT HeteroOwnEntry
INVARIANT Emit
