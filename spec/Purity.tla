------------------------------- MODULE Purity -------------------------------
(***************************************************************************)
(* Evaluations are pure (property C19).  Built on MechModel: the user owns  *)
(* instance 1 (a dosed PKPD model); every object constructed from it        *)
(* (likelihood, posterior, predictive model, ...) owns a COPY, instance     *)
(* 1 + k for object k.  An evaluation of an object is a short run of public *)
(* calls on the model it owns:                                              *)
(*    value / pointwise :  enable_sensitivities(False) if they are on, then *)
(*                         simulate                                         *)
(*    S1                :  enable_sensitivities(True) if they are off, then  *)
(*                         simulate                                         *)
(*    sample            :  simulate                                         *)
(* The sensitivity switch and the solver object are HIDDEN state that       *)
(* evaluations flip and rebuild.  The user may reconfigure instance 1 at    *)
(* any time after construction.                                             *)
(* TLC explores all interleavings and checks (with the invariants of        *)
(* MechModel: the solver of every instance holds the regimen the instance   *)
(* reports at every Run, no sharing) that the abstract configuration of an  *)
(* object's model -- everything an evaluation result depends on -- is never *)
(* changed by evaluations (except the switch itself) nor by the user's      *)
(* later changes to the original model.                                     *)
(***************************************************************************)
EXTENDS MechModel

CONSTANTS NObj, MaxEvals,
          EMCopy        \* "deep": every object owns its own copy of the user's (reduced) error model;
                        \* "shallow": the copies share the mask / value buffer of the user's object (negative control)
VARIABLES evals, phaseP, ehist,
          emcell,       \* owner (0 = the user, o = object o) -> cell holding the fixed-parameter state of its error model
          cells         \* cell -> [rel |-> value code the relative noise is fixed to, base |-> base noise fixed?]
emvars == <<emcell, cells>>
pvars == <<cfg, pend, solver, sinfo, nops, last, hist, evals, phaseP, ehist, emcell, cells>>

Objects == 1..NObj
Owned(o) == 1 + o
EvalKinds == {"value", "pointwise", "S1", "sample"}

\* construction: the user configures the model (route + regimen), then every object copies it
PU_Init == /\ Init /\ evals = 0 /\ phaseP = "configure" /\ ehist = <<>>
           /\ emcell = [w \in 0..NObj |-> 0] /\ cells = [c \in 0..NObj |-> [rel |-> 1, base |-> FALSE]]
EMVal(w) == cells[emcell[w]]       \* the fixed-parameter state the error model of owner w evaluates with

PU_Configure ==            \* set_administration; set_dosing_regimen on the user's model (through MechModel actions)
  /\ phaseP = "configure" /\ AllIdle
  /\ \/ cfg[1].admin = "none" /\ MM_Call(1, "adm", "direct")
     \/ cfg[1].admin # "none" /\ cfg[1].reg = 0 /\ MM_Call(1, "reg", 1)
  /\ UNCHANGED <<evals, phaseP, ehist, emvars>>
PU_Construct ==            \* objects are built one after the other, each copies the user's model
  /\ phaseP = "configure" /\ AllIdle /\ cfg[1].reg # 0
  /\ \E o \in Objects : /\ ~cfg[Owned(o)].ex /\ (\A q \in Objects : q < o => cfg[Owned(q)].ex) /\ MM_Copy(1, Owned(o))
                         /\ IF EMCopy = "deep" THEN emcell' = [emcell EXCEPT ![o] = o] /\ cells' = [cells EXCEPT ![o] = cells[emcell[0]]]
                                              ELSE UNCHANGED emvars          \* the copy aliases the user's arrays
  /\ UNCHANGED <<evals, phaseP, ehist>>
PU_Start == /\ phaseP = "configure" /\ AllIdle /\ \A o \in Objects : cfg[Owned(o)].ex
            /\ phaseP' = "run" /\ UNCHANGED <<cfg, pend, solver, sinfo, nops, last, hist, evals, ehist, emvars>>

\* an evaluation: first the switch (if it has to change), then the simulation -- two public calls on the owned model
NeedsSwitch(o, k) == (k \in {"value", "pointwise"} /\ cfg[Owned(o)].sens) \/ (k = "S1" /\ ~cfg[Owned(o)].sens)
PU_EvalSwitch(o, k) ==
  /\ phaseP = "run" /\ AllIdle /\ evals < MaxEvals /\ NeedsSwitch(o, k)
  /\ MM_Call(Owned(o), "sens", k = "S1")
  /\ phaseP' = "mid" /\ evals' = evals /\ ehist' = Append(ehist, <<"eval", o, k>>) /\ UNCHANGED emvars
PU_EvalRun(o, k) ==
  /\ AllIdle
  /\ \/ phaseP = "mid" /\ Last(ehist) = <<"eval", o, k>> /\ ehist' = ehist
     \/ phaseP = "run" /\ evals < MaxEvals /\ ~NeedsSwitch(o, k) /\ ehist' = Append(ehist, <<"eval", o, k>>)
  /\ MM_Call(Owned(o), "sim", 0)
  /\ phaseP' = "run" /\ evals' = evals + 1 /\ UNCHANGED emvars
\* the user changes the original model after construction
PU_MutateUser ==
  /\ phaseP = "run" /\ AllIdle /\ evals < MaxEvals
  /\ \E oa \in {<<"adm", "indirect">>, <<"reg", 2>>, <<"outs", 1>>, <<"sens", TRUE>>} :
        /\ MM_Call(1, oa[1], oa[2])
        /\ ehist' = Append(ehist, <<"mutate", oa[1], oa[2]>>)
  /\ evals' = evals + 1 /\ UNCHANGED <<phaseP, emvars>>
\* the user re-fixes a parameter of the (reduced) error model he handed over: the mask / buffer arrays are written in place
PU_UserRefix ==
  /\ phaseP = "run" /\ AllIdle /\ evals < MaxEvals
  /\ cells' = [cells EXCEPT ![emcell[0]].rel = 3 - @]
  /\ ehist' = Append(ehist, <<"mutate", "emfix", 3 - cells[emcell[0]].rel>>)
  /\ evals' = evals + 1 /\ UNCHANGED <<cfg, pend, solver, sinfo, nops, last, hist, phaseP, emcell>>
\* fix_parameters on object o itself (a public call): the only step that may change what o evaluates with
PU_ObjFix(o) ==
  /\ phaseP = "run" /\ AllIdle /\ evals < MaxEvals /\ ~EMVal(o).base
  /\ cells' = [cells EXCEPT ![emcell[o]].base = TRUE]
  /\ ehist' = Append(ehist, <<"objfix", o, 1>>)
  /\ evals' = evals + 1 /\ UNCHANGED <<cfg, pend, solver, sinfo, nops, last, hist, phaseP, emcell>>

PU_Next == \/ PU_Configure \/ PU_Construct \/ PU_Start \/ PU_MutateUser \/ PU_UserRefix
           \/ \E o \in Objects : PU_ObjFix(o)
           \/ \E o \in Objects : \E k \in EvalKinds : PU_EvalSwitch(o, k) \/ PU_EvalRun(o, k)
           \/ (\E m \in Inst : MM_Step(m)) /\ UNCHANGED <<evals, phaseP, ehist, emvars>>
PU_Spec == PU_Init /\ [][PU_Next]_pvars
PU_View == <<cfg, pend, solver, sinfo, phaseP, emcell, cells>>

\* what an evaluation result may depend on: the configuration of the owned model without the switch
ResultCfg(m) == [admin |-> cfg[m].admin, reg |-> cfg[m].reg, outs |-> cfg[m].outs, pren |-> cfg[m].pren, oren |-> cfg[m].oren]
\* Pure / Isolation: once the objects exist, nothing ever changes the result-relevant configuration of an owned model
IsolationStep == phaseP \in {"run", "mid"} =>
                 \A o \in Objects : (cfg'[Owned(o)].ex /\ cfg[Owned(o)].ex) => ResultCfg(Owned(o))' = ResultCfg(Owned(o))
Isolation == [][IsolationStep]_pvars
\* the same for the error models: what object o evaluates with changes only through fix_parameters on o itself -- not through
\* the user's later re-fixing, nor through fix_parameters on a sibling object
EMIsolationStep == phaseP \in {"run", "mid"} =>
   \A o \in Objects : EMVal(o)' # EMVal(o) => (ehist' # ehist /\ Last(ehist') = <<"objfix", o, 1>>)
EMIsolation == [][EMIsolationStep]_pvars
\* every object got the regimen that was configured before it was built
ObjectsDosed == phaseP \in {"run", "mid"} => \A o \in Objects : cfg[Owned(o)].reg = 1 /\ cfg[Owned(o)].admin = "direct"

EmitEvals == (phaseP = "run" /\ evals = MaxEvals /\ AllIdle) => PrintT("@@" \o ToJson(ehist))
=============================================================================
