CONSTANTS
  MaxSub = 1
  MaxDim = 2
  MaxIds = 2
  MaxCov = 2
  MaxFixed = 0
  CovSpecial = "repaired"
SPECIFICATION Spec
CHECK_DEADLOCK FALSE
INVARIANT PL_Bijection
INVARIANT PL_Counts
INVARIANT IdsMarkBottom
INVARIANT EtaColOK
INVARIANT BottomNamesOK
INVARIANT IdsOK
INVARIANT GradSlotOK
INVARIANT ScatterOK
INVARIANT UniqueDefault
INVARIANT SubOrder
INVARIANT SpecialTableOK
INVARIANT Emit
