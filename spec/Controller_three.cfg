CONSTANTS
  MaxExtra = 1
  Ids = {1, 2, 3}
  Times = {1, 2}
  Vals = {1, 2}
  Unmeasured = FALSE
  Unbalanced = TRUE
SPECIFICATION Spec
CHECK_DEADLOCK FALSE
INVARIANT RoutedOnce
INVARIANT IrrelevantRowsIgnored
INVARIANT OwnRowsOnly
INVARIANT AllIdsPresent
INVARIANT Emit
