CONSTANTS
  MaxPer = 2
  MaxDim = 3
  MaxCov = 2
  MaxIds = 3
  BigDims = {9, 12}
  MaxSel = 5
SPECIFICATION Spec
CHECK_DEADLOCK FALSE
INVARIANT MechIsDecl
INVARIANT Unselected
INVARIANT NamesBijective
INVARIANT Transpose
INVARIANT Emit
