CONSTANTS
  MaxStates = 3
  MaxConsts = 1
  MaxOut = 3
  MaxFixed = 0
  Variant = "asfound"
SPECIFICATION Spec
CHECK_DEADLOCK FALSE
INVARIANT StateAssignmentOK
INVARIANT SensRequestOK
INVARIANT AssignmentBijective
INVARIANT OutputsOK
INVARIANT Emit
