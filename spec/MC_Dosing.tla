----------------------------- MODULE MC_Dosing -----------------------------
EXTENDS Dosing
MCFinals == (0..7) \cup {Unlimited}
MCFinalsSmall == {0, 1, 2, 3, 5} \cup {Unlimited}
=============================================================================
