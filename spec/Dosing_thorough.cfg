CONSTANTS
  Doses = {1, 2}
  Starts = {0, 1, 2, 3}
  Durs = {1, 2, 3}
  Periods = {0, 1, 2, 3, 4}
  Nums = {0, 1, 2, 3, 4}
  Finals <- MCFinals
  Variant = "repaired"
SPECIFICATION Spec
CHECK_DEADLOCK FALSE
INVARIANT TableIsApplied
INVARIANT DeliversDoses
INVARIANT NoOverlap
INVARIANT Emit
