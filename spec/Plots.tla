-------------------------------- MODULE Plots --------------------------------
(***************************************************************************)
(* Figures (property C20): rank-based prediction bands and routing of the   *)
(* rows of a data frame to the traces of a figure.                          *)
(*                                                                         *)
(* BANDS.  At one time point the samples are v[1..n] (ties allowed).  The   *)
(* percentile of a sample is its AVERAGE rank divided by n; for a bulk      *)
(* probability p = Num/Den the band limits are                              *)
(*     Lower(p) = max { v : pct(v) <= (1-p)/2 },                            *)
(*     Upper(p) = min { v : pct(v) >= (1+p)/2 }.                            *)
(* Everything is exact: R2(k) = 2*#smaller + #equal + 1 is twice the        *)
(* average rank, pct(v) <= (1-p)/2  <=>  R2*Den <= n*(Den-Num), etc.        *)
(* TLC checks, for every sample sequence and every p of the grid, that the  *)
(* limits are sample values, that (when both exist) they enclose at least   *)
(* the fraction p of the samples, and that bands are nested in p.           *)
(*                                                                         *)
(* ROUTING.  Rows [id, obs, t, v, dose]: one marker trace per individual    *)
(* (first-occurrence order) with exactly its (time, value) pairs of the     *)
(* chosen observable in row order; dose traces hold its dose rows.          *)
(***************************************************************************)
EXTENDS Integers, Sequences, FiniteSets, TLC, Json, SequencesExt, FiniteSetsExt

CONSTANTS MaxN, ValDom, MaxRows, Mode
VARIABLES v, rows, phase
vars == <<v, rows, phase>>
Checked == phase = "checked"

\* probability grid as <<Num, Den>>
\* (0.99 and 0.995 agree to two decimals: every requested probability gets its own band all the same; chi draws at most 7)
Probs == <<<<3, 10>>, <<1, 2>>, <<7, 10>>, <<9, 10>>, <<19, 20>>, <<99, 100>>, <<199, 200>>>>

N == Len(v)
R2(k) == 2 * Cardinality({j \in 1..N : v[j] < v[k]}) + Cardinality({j \in 1..N : v[j] = v[k]}) + 1
LowSet(p) == {k \in 1..N : R2(k) * p[2] <= N * (p[2] - p[1])}
UpSet(p)  == {k \in 1..N : R2(k) * p[2] >= N * (p[2] + p[1])}
SetMax(S) == CHOOSE x \in S : \A y \in S : y <= x
SetMin(S) == CHOOSE x \in S : \A y \in S : x <= y
HasLower(p) == LowSet(p) # {}
HasUpper(p) == UpSet(p) # {}
Lower(p) == SetMax({v[k] : k \in LowSet(p)})
Upper(p) == SetMin({v[k] : k \in UpSet(p)})
\* boundary: some sample sits exactly on a percentile threshold (floating point may decide either way)
OnBoundary(p) == \E k \in 1..N : R2(k) * p[2] = N * (p[2] - p[1]) \/ R2(k) * p[2] = N * (p[2] + p[1])

Encloses == (Checked /\ Mode = "bands") => \A i \in DOMAIN Probs : LET p == Probs[i] IN
   (HasLower(p) /\ HasUpper(p)) =>
      /\ Lower(p) <= Upper(p)
      /\ Cardinality({k \in 1..N : Lower(p) <= v[k] /\ v[k] <= Upper(p)}) * p[2] >= p[1] * N
Nested == (Checked /\ Mode = "bands") => \A i, j \in DOMAIN Probs : LET p == Probs[i] q == Probs[j] IN
   (p[1] * q[2] < q[1] * p[2] /\ HasLower(p) /\ HasUpper(p) /\ HasLower(q) /\ HasUpper(q)) =>
      Lower(q) <= Lower(p) /\ Upper(p) <= Upper(q)
\* a wider band exists only if the narrower one does
ExistenceMonotone == (Checked /\ Mode = "bands") => \A i, j \in DOMAIN Probs : LET p == Probs[i] q == Probs[j] IN
   (p[1] * q[2] < q[1] * p[2]) => (HasLower(q) => HasLower(p)) /\ (HasUpper(q) => HasUpper(p))

\* ---- routing ------------------------------------------------------------------------------
\* dose = 1: the row carries a dose amount; dur = 1: it carries a duration.  A dose without a duration is a bolus and still a
\* dose row; a duration without a dose is not a dose row.
\* (the row sets below range over two individuals; cohorts of 1 .. 25 individuals -- more than any colour palette holds -- are
\* replayed by harness/replay_plots.py cohort_checks against the same RoutingOK)
RowSet == [id : 1..2, obs : {"A", "B", "none"}, t : 1..2, v : 1..2, dose : 0..1, dur : 0..1]
PL_Rng(s) == {s[i] : i \in DOMAIN s}
RECURSIVE FirstOccIds(_, _)
FirstOccIds(s, acc) == IF s = <<>> THEN acc
                       ELSE FirstOccIds(Tail(s), IF Head(s).id \in PL_Rng(acc) THEN acc ELSE Append(acc, Head(s).id))
Chosen == "A"
ObsRows == SelectSeq(rows, LAMBDA r : r.obs = Chosen)
TraceIds == FirstOccIds(ObsRows, <<>>)
TraceOf(i) == LET rs == SelectSeq(ObsRows, LAMBDA r : r.id = i) IN [k \in DOMAIN rs |-> <<rs[k].t, rs[k].v>>]
DoseTraceOf(i) == LET rs == SelectSeq(rows, LAMBDA r : r.id = i /\ r.dose > 0) IN [k \in DOMAIN rs |-> <<rs[k].t, rs[k].dose>>]
\* add_simulation: the frame is a simulated time series (a time and a value column, nothing else is read); the line drawn holds
\* every row once, in the order of the frame
SimTrace == [k \in DOMAIN rows |-> <<rows[k].t, rows[k].v>>]
RoutingOK == (Checked /\ Mode = "routing") =>
   /\ Len(SimTrace) = Len(rows)
   /\ FoldLeft(LAMBDA acc, i : acc + Len(TraceOf(i)), 0, TraceIds) = Len(ObsRows)       \* every row reaches one trace
   /\ \A i \in PL_Rng(TraceIds) : \A k \in DOMAIN TraceOf(i) : \E r \in PL_Rng(rows) : r.id = i /\ r.obs = Chosen /\ <<r.t, r.v>> = TraceOf(i)[k]

Init == /\ phase = "raw"
        /\ IF Mode = "bands" THEN rows = <<>> /\ v \in UNION {[1..n -> ValDom] : n \in 1..MaxN}
           ELSE v = <<>> /\ rows \in UNION {[1..n -> RowSet] : n \in 1..MaxRows}
Next == phase = "raw" /\ phase' = "checked" /\ UNCHANGED <<v, rows>>
Spec == Init /\ [][Next]_vars

BandRec(p) == [num |-> p[1], den |-> p[2], haslower |-> HasLower(p), hasupper |-> HasUpper(p),
               lower |-> IF HasLower(p) THEN Lower(p) ELSE 0, upper |-> IF HasUpper(p) THEN Upper(p) ELSE 0,
               boundary |-> OnBoundary(p)]
Emit == Checked => PrintT("@@" \o ToJson(
   IF Mode = "bands" THEN [mode |-> "bands", v |-> v, bands |-> [i \in DOMAIN Probs |-> BandRec(Probs[i])]]
   ELSE [mode |-> "routing", rows |-> rows, ids |-> TraceIds, traces |-> [k \in DOMAIN TraceIds |-> TraceOf(TraceIds[k])],
         doses |-> [k \in DOMAIN TraceIds |-> DoseTraceOf(TraceIds[k])], sim |-> SimTrace]))
=============================================================================
