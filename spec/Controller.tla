------------------------------ MODULE Controller ------------------------------
(***************************************************************************)
(* chi.ProblemModellingController: routing of the rows of a long-format     *)
(* dataset to individuals, outputs, dosing regimens and covariates           *)
(* (property C14; dataset part of C10).                                     *)
(*                                                                         *)
(* A row is [id, kind, t, v]:                                               *)
(*   kind "m1"/"m2"  measurement of the observable mapped to output 1 / 2    *)
(*        "mx"       measurement of an observable that is not mapped         *)
(*        "mv"       mapped observable 1 with a MISSING value                *)
(*        "d"/"db"   dose row with / without a duration (bolus by default)   *)
(*        "md"       measurement of mapped observable 1 on a row that ALSO   *)
(*                   carries a dose with a duration (a trough sample taken   *)
(*                   at the time of the next administration): the row is     *)
(*                   both a measurement and a dose row                       *)
(*        "c"        covariate row (no time)                                 *)
(*   t = 0 encodes a missing time, v is a value code.                        *)
(* The output-observable mapping is a FUNCTION output -> observable: the     *)
(* order in which the caller writes its entries carries no information (the  *)
(* replayer writes it in both orders).                                      *)
(* A dataset is Extra (any sequence of up to MaxExtra rows) followed by the  *)
(* fixed base rows (one measurement and one covariate value per individual), *)
(* so every individual can be evaluated.                                    *)
(*                                                                         *)
(* The specification DEFINES the posterior the dataset describes:           *)
(* individuals in first-occurrence order, each with its own measurements    *)
(* per output (row order preserved), its own dose events and its own        *)
(* covariate value -- and states what must not matter.                      *)
(***************************************************************************)
EXTENDS Naturals, Sequences, FiniteSets, TLC, Json, SequencesExt, FiniteSetsExt

CONSTANTS MaxExtra, Ids, Times, Vals, Unbalanced, Unmeasured
VARIABLES extra, phase
vars == <<extra, phase>>
Checked == phase = "checked"

OutKind(o) == IF o = 1 THEN "m1" ELSE "m2"
Kinds == {"m1", "m2", "mx", "mv", "d", "db", "md", "c"}
DoseKinds == {"d", "db", "md"}
Measures(k, o) == k = OutKind(o) \/ (o = 1 /\ k = "md")
Rows == [id : Ids, kind : Kinds \ {"c"}, t : Times \cup {0}, v : Vals]
\* base rows: individuals in DESCENDING order so that the extras decide the first-occurrence order
IdSeq == SetToSortSeq(Ids, LAMBDA a, b : a > b)
\* Unbalanced designs: the individual with the smallest ID has NO base measurement of the first output (its base measurement is
\* of the second one), so that -- unless an extra row supplies one -- its likelihood has an output without observations in
\* front of one with observations
CT_Min == CHOOSE m \in Ids : \A j \in Ids : m <= j
\* Unmeasured: that individual's only base row of a mapped observable has a MISSING value -- the individual is in the dataset
\* (covariate row, perhaps doses, perhaps extra rows) and in the population, with a likelihood that may have no term at all
BaseKind(i) == IF Cardinality(Ids) > 1 /\ i = CT_Min
               THEN (IF Unmeasured THEN "mv" ELSE IF Unbalanced THEN "m2" ELSE "m1") ELSE "m1"
Base == FoldLeft(LAMBDA acc, i : acc \o <<[id |-> i, kind |-> BaseKind(i), t |-> 1, v |-> 1], [id |-> i, kind |-> "c", t |-> 0, v |-> i]>>,
                 <<>>, IdSeq) \o <<[id |-> IdSeq[1], kind |-> "m2", t |-> 2, v |-> 2]>>   \* every mapped observable occurs
Data == extra \o Base

CT_Rng(s) == {s[k] : k \in DOMAIN s}
\* individuals in first-occurrence order
RECURSIVE FirstOcc(_, _)
FirstOcc(s, acc) == IF s = <<>> THEN acc
                    ELSE FirstOcc(Tail(s), IF Head(s).id \in CT_Rng(acc) THEN acc ELSE Append(acc, Head(s).id))
IdOrder == FirstOcc(Data, <<>>)

\* measurements of individual i for output o: (time, value) in row order, rows with a missing time or value dropped
Meas(i, o) == LET rs == SelectSeq(Data, LAMBDA r : r.id = i /\ Measures(r.kind, o) /\ r.t # 0)
              IN [k \in DOMAIN rs |-> <<rs[k].t, rs[k].v>>]
\* dose events of individual i: (amount code, time, duration code; 0 = bolus default), row order
Regimen(i) == LET rs == SelectSeq(Data, LAMBDA r : r.id = i /\ r.kind \in DoseKinds /\ r.t # 0)
              IN [k \in DOMAIN rs |-> <<rs[k].v, rs[k].t, IF rs[k].kind \in {"d", "md"} THEN rs[k].v ELSE 0>>]
Cov(i) == LET rs == SelectSeq(Data, LAMBDA r : r.id = i /\ r.kind = "c") IN rs[1].v
Posterior == [ids |-> IdOrder,
              meas |-> [k \in DOMAIN IdOrder |-> <<Meas(IdOrder[k], 1), Meas(IdOrder[k], 2)>>],
              regimen |-> [k \in DOMAIN IdOrder |-> Regimen(IdOrder[k])],
              cov |-> [k \in DOMAIN IdOrder |-> Cov(IdOrder[k])]]

\* ---- what must hold / must not matter --------------------------------------------------------
\* every usable measurement row is routed exactly once, to its own individual and output
Relevant(r) == r.kind \in {"m1", "m2", "md"} /\ r.t # 0
RoutedOnce == Checked =>
  LET total == FoldLeft(LAMBDA acc, i : acc + Len(Meas(i, 1)) + Len(Meas(i, 2)), 0, IdOrder)
  IN total = Cardinality({k \in DOMAIN Data : Relevant(Data[k])})
\* unrelated rows (unmapped observables, missing values, missing times) leave the posterior unchanged
Irrelevant(r) == r.kind \in {"mx", "mv"} \/ (r.kind # "c" /\ r.t = 0)
Stripped == SelectSeq(Data, LAMBDA r : ~Irrelevant(r))
StrippedIds == FirstOcc(Stripped, <<>>)
IrrelevantRowsIgnored == Checked =>
  \A i \in Ids : \A o \in 1..2 :
     /\ Meas(i, o) = LET rs == SelectSeq(Stripped, LAMBDA r : r.id = i /\ Measures(r.kind, o) /\ r.t # 0)
                     IN [k \in DOMAIN rs |-> <<rs[k].t, rs[k].v>>]
\* each individual's regimen is built from its own rows only
OwnRowsOnly == Checked => \A i \in Ids : Len(Regimen(i)) = Cardinality({k \in DOMAIN Data : Data[k].id = i /\ Data[k].kind \in DoseKinds /\ Data[k].t # 0})
AllIdsPresent == Checked => CT_Rng(IdOrder) = Ids /\ Len(IdOrder) = Cardinality(Ids)

Init == extra \in UNION {[1..k -> Rows] : k \in 0..MaxExtra} /\ phase = "raw"
Next == phase = "raw" /\ phase' = "checked" /\ UNCHANGED extra
Spec == Init /\ [][Next]_vars

\* preconditions of the classes the controller builds on: per individual and output the measurement
\* times are non-decreasing in row order (chi.LogLikelihood), dose events start at distinct times (myokit)
NonDecr(sq) == \A k \in 1..(Len(sq) - 1) : sq[k][1] <= sq[k + 1][1]
Valid == /\ \A i \in Ids : NonDecr(Meas(i, 1)) /\ NonDecr(Meas(i, 2))
         /\ \A i \in Ids : \A k1, k2 \in DOMAIN Regimen(i) : k1 # k2 => Regimen(i)[k1][2] # Regimen(i)[k2][2]
Emit == Checked => PrintT("@@" \o ToJson([data |-> Data, posterior |-> Posterior, valid |-> Valid]))
=============================================================================
