CONSTANTS
  Design = "reseed"
  NSub = 3
  DrawsPerSub = 2
  SeedArgs = {"int", "none", "gen"}
SPECIFICATION Spec
CHECK_DEADLOCK FALSE
INVARIANT Reproducible
INVARIANT Independent
INVARIANT Advanced
INVARIANT GeneratorMoved
