CONSTANTS
  MaxN = 1
  ValDom = {1}
  MaxRows = 2
  Mode = "routing"
SPECIFICATION Spec
CHECK_DEADLOCK FALSE
INVARIANT RoutingOK
INVARIANT Emit
