CONSTANTS
  MaxN = 1
  ValDom = {1}
  MaxRows = 3
  Mode = "routing"
SPECIFICATION Spec
CHECK_DEADLOCK FALSE
INVARIANT RoutingOK
INVARIANT Emit
