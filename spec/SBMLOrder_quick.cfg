CONSTANTS
  MaxStates = 3
  MaxConsts = 2
  MaxOut = 2
  MaxFixed = 1
  Variant = "asfound"
SPECIFICATION Spec
CHECK_DEADLOCK FALSE
INVARIANT StateAssignmentOK
INVARIANT SensRequestOK
INVARIANT AssignmentBijective
INVARIANT OutputsOK
INVARIANT Emit
