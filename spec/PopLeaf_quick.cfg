CONSTANTS
  MaxDim = 2
  MaxIds = 3
SPECIFICATION Spec
CHECK_DEADLOCK FALSE
INVARIANT ViewsAgree
INVARIANT ReducedLenOK
INVARIANT ReducedComplete
INVARIANT SeparateComplete
INVARIANT HeteroOwnEntry
INVARIANT Emit
