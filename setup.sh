#!/bin/sh
# Offline set-up of the /verif machinery: optional pure-python deps into .deps, scratch dirs,
# and a SANY parse of every specification module.
set -e
cd "$(dirname "$0")"
mkdir -p .work .deps evidence replays
/venv/bin/pip install -q --no-index --find-links /opt/veriftools/wheels --target .deps mpmath jsonschema >/dev/null 2>&1 || echo "setup: optional deps not installed (mpmath/jsonschema); continuing"
fail=0
for f in spec/*.tla; do
  m=$(basename "$f" .tla)
  if ! (cd spec && java -cp /opt/veriftools/tla/tla2tools.jar:/opt/veriftools/tla/CommunityModules-deps.jar tla2sany.SANY "$m.tla" > "../.work/sany-$m.log" 2>&1); then
    echo "setup: SANY failed on $m"; fail=1
  fi
done
exit $fail
